#!/usr/bin/env python3
"""Regenerates MANIFEST.json from the table below (kept next to vcheck's registry)."""
import json, re

ALL = ["C%02d" % i for i in range(1, 35)]

# id -> (category, technique, text, note, design_ref)
CHECKS = {
 "C01": ("model_checking",
         "explicit-state BFS over registration histories of the real handler, then exhaustive enumeration of PUBLISH variants in every reached state, checked against a client-side reference of what each topic id denotes",
         "BFS over registration/subscription histories (depth 2, thorough 3) after a connect; in every reached state all 2304 PUBLISH flag/type/id/msgid/payload variants plus payload sizes across the header-form boundary and MaxPayloadLength are sent; the MQTT byte stream is parsed independently and compared with the reference (exactly one PUBLISH with same payload/retain/DUP/QoS/msg id and the denoted topic; none when the id denotes nothing).",
         "Default schedule; ids in flight between the two sides' views (REGISTER/SUBSCRIBE not yet acknowledged) accept both outcomes.",
         "3 C01"),
 "C02": ("model_checking",
         "explicit-state BFS per predefined-topic configuration over subscription histories, broker PUBLISH variants and client answers to REGISTER; oracle = the client's own topic-id resolver",
         "For each configuration {c1,*} x id{1,2} -> {absent,p/1,p/2} (quick 9, thorough all 81 minus those with duplicate names in one table): BFS over up to 3 client registrations/subscriptions, then every broker PUBLISH (7 topics x QoS 0-2 x retain x payload, thorough x DUP), then every answer to a gateway REGISTER (accept / reject / silence with retry timers): each SN PUBLISH must resolve, by the client's own knowledge, to exactly the broker's topic with the same payload/QoS/retain; unknown names are REGISTERed first.",
         "Default schedule; configurations whose by-name lookup depends on Go map iteration order are skipped here (covered by C05's repeated lookups).",
         "3 C02"),
 "C03": ("model_checking",
         "explicit-state BFS over control-packet histories of the real handler + stateless schedule exploration against a broker/client that answers at once",
         "BFS (depth 3, thorough 4) over SUBSCRIBE/UNSUBSCRIBE (all topic forms, QoS 0-2, msg ids 1-2), PUBREL, PINGREQ, DISCONNECT and broker SUBACK (rc 0,1,2,0x80), PUBREC, PUBCOMP, UNSUBACK, PINGRESP: per event exactly one translated packet with the same msg id, resolved filter and requested QoS; SUBACK accepted iff rc<=2 with the granted QoS and the assigned topic id. Plus E2 scenarios in which the broker's answer (and a client reusing the acknowledged msg id) becomes available the moment the request is written, explored over all interleavings within the preemption bound.",
         "BFS part: default schedule, no time passes. E2 part: preemption bound 2 (thorough up to unbounded).",
         "3 C03"),
 "C04": ("model_checking",
         "explicit-state BFS to a fixpoint over all orders of the three topic-id allocation paths on a handler with a 4-id space, plus one full-range history on the unmodified handler",
         "For 5 predefined-id configurations of the id range 1..4 (single, adjacent, client-specific and * entries, all ids predefined): BFS to a fixpoint over REGISTER / SUBSCRIBE / broker-PUBLISH-triggered REGISTER events through and beyond exhaustion with the monitor id->name forever (in range, not predefined for the client, never a second name, refused when exhausted); plus one history of 65 537 allocations on the unmodified newHandler (real constants 1..0xFFFE).",
         "Default schedule; the small id range is installed through an overlay-only export; the full range is exercised by one history only.",
         "3 C04"),
 "C05": ("exploration",
         "exhaustive enumeration of all small predefined-topic maps against a precedence reference",
         "All 4096 maps {c1,*} x id{1,2,3} -> {absent,\"\",x,y} (empty tables both missing and present) and the repository's own topics.yaml, for client ids {c1,c2,*}, all ids 0..4 and all names: GetTopicName equals the reference precedence; every id GetTopicID returns reads back as the same name; an id is found whenever one resolves to the name.",
         "Go map iteration order cannot be enumerated; by-name lookups are repeated 8 times.",
         "3 C05"),
 "C07": ("model_checking",
         "explicit-state breadth-first search over event histories of the real gateway session handler (replay on a fresh instance per transition, state = private snapshot + monitor)",
         "BFS (quick depth 6, thorough depth 9 or fixpoint) over client/broker event histories of one real handler1 with authentication off and on; alphabet = one datagram of every MQTT-SN message type plus CONNECT/DISCONNECT/AUTH/PUBLISH variants and broker CONNACK(0/5) (only in answer to a CONNECT); the monitor checks in every state: CONNACK(accepted) and any relayed packet only after a broker-accepted CONNECT (QoS -1 exception with auth off), and any other packet before that ends the session.",
         "Default schedule within one event; the broker model only answers CONNECTs it received; in-memory conns stand for UDP/TCP.",
         "3 C07"),
 "C08": ("model_checking",
         "explicit-state BFS over all orderings of connect-exchange packets on the real handler, 6 configurations",
         "BFS (depth 5 / 7) over all orderings of CONNECT/AUTH/WILLTOPIC/WILLMSG variants and broker CONNACKs for auth on/off x configured credentials {none, user+password, user only}; per-exchange monitor: with auth on a CONNECT needs a well-formed PLAIN AUTH of this exchange and carries its credentials; with auth off it carries exactly the configured ones; unknown method => CONNACK not-supported and no CONNECT afterwards.",
         "Default schedule; where several AUTH packets occur in one exchange the credentials of any of them are accepted (the statement does not say which counts).",
         "3 C08"),
 "C09": ("model_checking",
         "explicit-state BFS over all orderings of connect-exchange packets on the real handler (same state space as C08)",
         "Same exploration as C08 with the will-protocol monitor: WILLTOPICREQ/WILLMSGREQ only with the Will flag and in order, MQTT CONNECT only after WILLMSG and carrying the client's will data, at most one MQTT CONNECT per exchange, CONNACK translated (accepted iff broker accepted, else congestion; keep-alive 0 => not supported).",
         "Default schedule; repeated CONNECT exchanges on one connection are the project's deliberate behaviour: only the first broker answer of an exchange is judged.",
         "3 C09"),
 "C10": ("model_checking",
         "explicit-state BFS over every prefix of the connect exchange, each followed by a silence suffix in virtual time (polls and the connect timer as discrete events)",
         "BFS over all prefixes (depth 4, thorough 5) of connect exchanges (CONNECT/AUTH/WILLTOPIC/WILLMSG variants, broker CONNACKs, 2 s pauses; auth off and on); after each prefix 10 s of silence: a session with a CONNECT not yet accepted must have returned by CONNECT time + 5 s + one 100 ms poll, with the broker connection closed.",
         "Default schedule; virtual clock; in-memory conns with faithful read-deadline polling.",
         "3 C10"),
 "C11": ("model_checking",
         "explicit-state BFS over sleep/wake cycle histories with the client's own sleep view as monitor + stateless schedule exploration of publishes racing with PINGREQ/DISCONNECT",
         "BFS (depth 7, thorough 9) over DISCONNECT(d) / broker PUBLISH (registered, short, new topic; QoS 0-2) / PUBREL / retry and pinger timers / PINGREQ wake-ups / client acknowledgements of flushed packets / CONNECT / repeated DISCONNECT(d): nothing is sent while the client's view is asleep, on wake-up exactly the owed packets once and in order followed by PINGRESP, asleep again afterwards (several cycles). E2 scenarios: a broker PUBLISH concurrent with the wake-up PINGREQ (0,1,2 packets buffered) or with the sleep request, all interleavings within the preemption bound with points at the state atomic, the send lock, conn writes and every packet-buffer access; a second wake-up collects what was left.",
         "BFS: default schedule; reference list of owed packets (retransmissions are not owed). E2: preemption bound 2 (thorough up to 4).",
         "3 C11"),
 "C13": ("model_checking",
         "explicit-state BFS over session histories x every termination cause (crash-point enumeration) + stateless schedule exploration of causes racing with in-flight events and timers",
         "BFS (depth 5, thorough 7; auth off/on) reaching disconnected/connecting/active/asleep/awake and pending client and broker exchanges; in every state each of 7 termination causes is injected and after 300 ms of polls the monitor checks: returned within one poll interval, broker conn closed, DISCONNECT to the client exactly when it was active/awake and did not disconnect itself, no session goroutine alive after firing all remaining timers, nothing sent after return. E2 scenarios explore the cause racing with a retry/connect timer or an incoming publish within a preemption bound.",
         "BFS part: default schedule. E2: preemption bound 2 (thorough 3). Goroutine accounting = threads spawned through the overlay's vsched.Go (all go statements and errgroup.Go of the explored packages).",
         "3 C13"),
 "C14": ("model_checking",
         "same exploration as C13 (states x termination causes, plus E2 races) with the broker-side byte stream parsed independently",
         "In every explored state and for every termination cause: an MQTT DISCONNECT is written iff the cause is the client's DISCONNECT without duration (then it is the last packet before close); going to sleep, shutdown, broker close, decode errors and illegal packets never produce one.",
         "As C13.",
         "3 C14"),
 "C18": ("model_checking",
         "stateless model checking of the real transactions code: all interleavings within a preemption bound under a cooperative scheduler (virtual timers as choices)",
         "Every interleaving (within the stated preemption bound; quick 3, thorough iterates 3..8) of Success/Fail/Proceed/timer expiry/cancellation threads on the real RetryTransaction and TimedTransaction, with a monitor evaluated at every scheduling step (Done closes once, Err constant afterwards, completion callback exactly once, no retry callback after Done, no panic). This is the level at which the property is stated: it quantifies over schedules.",
         "Sequentially consistent memory; scheduling points at shim mutex/atomic/timer operations and at accesses to the listed unsynchronised fields (mc/racy_fields.txt). Go runtime, synctest bubble and the shims are trusted.",
         "3 C18"),
 "C19": ("model_checking",
         "exhaustive enumeration of timed event histories on a tick grid against reference arithmetic, executed on the real code under virtual time",
         "All timed histories (RetryCount 0..3 x RetryDelay {2,3} ticks x up to 2 (thorough 3) Proceed/Success/Fail events at every tick, ties in both orders; timed transactions timeout {1,3} x completion at tick 0..5) are executed on the real transactions under a virtual clock and compared with reference arithmetic for callback instants, completion instant and final error.",
         "Default schedule inside one event (interleavings are C18's subject); virtual clock shim stands for package time.",
         "3 C19"),
 "C29": ("model_checking",
         "stateless model checking (all interleavings within a preemption bound; thorough: unbounded) + porcupine linearizability check of every history",
         "All interleavings of 2-3 threads x 2 calls on a real IDSequence (every range 0<=min<=max<=3 and 0xFFFE..0xFFFF), on a real TransactionStore (one forced key per key space) and on ClientState; each call/return history is checked for linearizability against a sequential reference with porcupine; plus the full uint16 ranges once sequentially.",
         "Sequentially consistent memory; points at the shim mutex/atomic and at the guarded fields (so that a narrowed or removed lock is observable).",
         "3 C29"),
 "C20": ("exploration",
         "bounded-exhaustive input enumeration of the real decoder under recover (all strings of length <=3; structural domain beyond)",
         "packets1.ReadPacket is called under recover() on every byte string of length 0..2, every string of length 3 (quick: first byte in {0,1,2,3,255}; thorough: all 16.7M) and on a structural domain for longer datagrams: both header forms x misleading announced lengths x all 256 type bytes x body lengths across every length comparison in the decoders (thorough: up to 8190) x the first two body bytes over the ranges the decoders branch on x filler {00,FF}. Exhaustive over that stated finite domain, not sampled.",
         "Completeness for longer inputs rests on the reading that decoders branch only on the datagram length and on the enumerated control bytes. Coverage-guided fuzzing (named in the property's quantifier) is sampling and is not used; inputs outside the domain are not covered.",
         "3 C20"),
 "C21": ("exploration",
         "bounded-exhaustive enumeration of constructor arguments; Pack/ReadPacket round trip compared field by field and with an independent reference encoder",
         "For every packet constructor: all flag combinations, each 16-bit field over its full range (one at a time), variable parts of every length across the 255/256 header-form boundary and up to MaxPayloadLength; round trip equality, length field = datagram size, one-byte form iff size <= 255, byte-identical to refsn.Encode; all 65536 short-topic ids in both directions.",
         "Legal ranges as documented by the constructors; refsn written from the MQTT-SN 1.2 field tables.",
         "3 C21"),
 "C22": ("exploration",
         "bounded-exhaustive differential check of the real decoder against an independent reference decoder over the C20 domain",
         "Every datagram of the C20 domain that the real decoder accepts is decoded by the independent reference (header length by the form actually used, fields at their specified offsets) and compared field by field; the packet is re-encoded and the re-encoding decoded again and compared (up to ignored flag bits, DISCONNECT duration 0 and the length field).",
         "refsn is the trusted reference; inputs outside the C20 domain are not covered.",
         "3 C22"),
}

REASON_PENDING = "check not built yet in this round (planned in DESIGN.md section 3); nothing is claimed for it"

def main():
    checks = []
    for pid in ALL:
        if pid not in CHECKS:
            continue
        cat, tech, text, note, ref = CHECKS[pid]
        checks.append({
            "property_id": pid,
            "quick_cmd": "./vcheck %s quick" % pid,
            "thorough_cmd": "./vcheck %s thorough" % pid,
            "evidence_file": "/verif/evidence/%s.json" % pid,
            "replay_cmd_template": "./vcheck replay {path}",
            "engine": "mc",
            "level_claimed": {"category": cat, "text": text, "design_ref": "DESIGN.md section " + ref},
            "level_note": note,
            "technique": tech,
        })
    m = {
        "version": 1,
        "setup_cmd": "./vcheck setup",
        "hooks": {
            "guard": "verif-overlay (go build -overlay generated by mc/cmd/mkoverlay; no guarded source changes in /repo)",
            "enable": "every check regenerates instrumented copies of /repo's current gateway/client/transactions/util sources (imports of time/sync/atomic redirected to shims, go statements to vsched.Go, points at listed racy fields) and builds with go1.26 test -c -overlay; /repo itself is never edited",
            "baseline_off_cmd": "cd /repo && GOFLAGS=-mod=mod GOPROXY=off go test -vet=off -count=1 ./...",
            "source_commits": [],
            "add_only": True,
        },
        "engines": [{
            "name": "mc",
            "path": "/verif/mc",
            "serves_properties": sorted(CHECKS),
            "kind_free_text": "hand-written model checker for Go: cooperative scheduler in a testing/synctest bubble (vsched), virtual time/sync/atomic shims injected by build overlay, in-memory conns (vnet), stateless deviation-bounded DFS and explicit-state BFS over the real code (explore), reference models (ref/*)",
        }],
        "checks": checks,
        "not_applicable": [{"property_id": p, "reason": REASON_PENDING} for p in ALL if p not in CHECKS],
        "notes": "All checks explore the real implementation (no separate model): states/transitions are measured on real-code executions; traces_validated_against_impl counts executions re-run from their recorded choice sequence with identical observations.",
    }
    json.dump(m, open("/verif/MANIFEST.json", "w"), indent=1)
    # keep vcheck's registry in sync is manual (reg lines)
if __name__ == "__main__":
    main()
