package explore

import (
	"crypto/sha1"
	"encoding/hex"
	"encoding/json"
	"fmt"
	"os"
	"path/filepath"
	"sort"
	"strconv"
	"time"
)

// Report collects what one check run covered and decided; Finish writes the
// evidence file, replay files and the VIOLATION / KNOWN-FINDING lines.
type Report struct {
	Property    string
	Level       string // model_checking | exploration | fault_enumeration
	Coverage    map[string]any
	Assumptions []string
	Violations  []Violation
	HarnessErr  string
	start       time.Time
}

func Tier() string {
	if t := os.Getenv("VERIF_TIER"); t == "thorough" {
		return "thorough"
	}
	return "quick"
}

func Seed() int {
	n, _ := strconv.Atoi(os.Getenv("VERIF_SEED"))
	return n
}

func VerifDir() string {
	if d := os.Getenv("VERIF_DIR"); d != "" {
		return d
	}
	return "/verif"
}

func Workers() int {
	if n, _ := strconv.Atoi(os.Getenv("VERIF_WORKERS")); n > 0 {
		return n
	}
	return 16
}

func NewReport(prop, level string) *Report {
	return &Report{Property: prop, Level: level, Coverage: map[string]any{}, start: time.Now()}
}

// Budget returns the wall-clock deadline for internal caps: hitting it makes a
// run non-exhaustive, never a violation.
func (r *Report) Budget(quick, thorough time.Duration) time.Time {
	if Tier() == "thorough" {
		return r.start.Add(thorough)
	}
	return r.start.Add(quick)
}

type knownFile struct {
	Findings []struct {
		Property    string `json:"property"`
		Signature   string `json:"signature"`
		Description string `json:"description"`
	} `json:"findings"`
	Fixed []string `json:"fixed"`
}

func (r *Report) Add(vs ...Violation) {
	for _, v := range vs {
		if v.Property == "" {
			v.Property = r.Property
		}
		r.Violations = append(r.Violations, v)
	}
}

// Finish prints the verdict lines and writes evidence.  It returns the number
// of violations that are not listed known findings.
func (r *Report) Finish() int {
	dir := VerifDir()
	var kf knownFile
	if b, err := os.ReadFile(filepath.Join(dir, "known_findings.json")); err == nil {
		if err := json.Unmarshal(b, &kf); err != nil {
			r.HarnessErr = "known_findings.json: " + err.Error()
		}
	}
	known := map[string]string{}
	for _, f := range kf.Findings {
		known[f.Property+"|"+f.Signature] = f.Description
	}
	// one representative (the first = shortest for BFS) per signature
	bySig := map[string]Violation{}
	count := map[string]int{}
	var order []string
	for _, v := range r.Violations {
		k := v.Property + "|" + v.Sig
		if _, ok := bySig[k]; !ok {
			bySig[k] = v
			order = append(order, k)
		}
		count[k]++
	}
	sort.Strings(order)
	newViol := 0
	knownHit := 0
	for _, k := range order {
		v := bySig[k]
		if desc, ok := known[k]; ok {
			fmt.Printf("KNOWN-FINDING: property=%s %s [%s] (%d occurrences)\n", v.Property, desc, v.Sig, count[k])
			knownHit++
			continue
		}
		newViol++
		h := sha1.Sum([]byte(k))
		path := filepath.Join(dir, "replays", v.Property+"-"+hex.EncodeToString(h[:5])+".json")
		os.MkdirAll(filepath.Dir(path), 0o755)
		b, _ := json.MarshalIndent(map[string]any{"violation": v, "occurrences": count[k], "tier": Tier()}, "", " ")
		os.WriteFile(path, b, 0o644)
		fmt.Printf("VIOLATION property=%s replay=%s\n", v.Property, path)
		fmt.Printf("  signature: %s\n  detail: %s\n  history: %v\n  choices: %v\n", v.Sig, v.Detail, v.History, v.Choices)
	}
	if r.HarnessErr != "" {
		fmt.Printf("HARNESS-ERROR property=%s %s\n", r.Property, r.HarnessErr)
	}
	ev := map[string]any{
		"property_id":        r.Property,
		"tier":               Tier(),
		"seed":               Seed(),
		"level":              r.Level,
		"coverage":           r.Coverage,
		"assumptions":        r.Assumptions,
		"wall_s":             time.Since(r.start).Seconds(),
		"violations":         newViol,
		"known_findings_hit": knownHit,
	}
	if r.HarnessErr != "" {
		ev["harness_error"] = r.HarnessErr
	}
	b, _ := json.MarshalIndent(ev, "", " ")
	os.MkdirAll(filepath.Join(dir, "evidence"), 0o755)
	if r.HarnessErr == "" {
		os.WriteFile(filepath.Join(dir, "evidence", r.Property+".json"), b, 0o644)
	}
	return newViol
}
