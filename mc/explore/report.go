package explore

import (
	"crypto/sha1"
	"encoding/hex"
	"encoding/json"
	"fmt"
	"os"
	"path/filepath"
	"sort"
	"strconv"
	"time"
)

// Report collects what one check run covered and decided; Finish writes the
// evidence file, replay files and the VIOLATION / KNOWN-FINDING lines.
type Report struct {
	Property    string
	Level       string // model_checking | exploration | fault_enumeration
	Coverage    map[string]any
	Assumptions []string
	Violations  []Violation
	HarnessErr  string
	start       time.Time
}

func Tier() string {
	if t := os.Getenv("VERIF_TIER"); t == "thorough" {
		return "thorough"
	}
	return "quick"
}

func Seed() int {
	n, _ := strconv.Atoi(os.Getenv("VERIF_SEED"))
	return n
}

func VerifDir() string {
	if d := os.Getenv("VERIF_DIR"); d != "" {
		return d
	}
	return "/verif"
}

func Workers() int {
	if n, _ := strconv.Atoi(os.Getenv("VERIF_WORKERS")); n > 0 {
		return n
	}
	return 16
}

func NewReport(prop, level string) *Report {
	return &Report{Property: prop, Level: level, Coverage: map[string]any{}, start: time.Now()}
}

// Budget returns the wall-clock deadline for internal caps: hitting it makes a
// run non-exhaustive, never a violation.
func (r *Report) Budget(quick, thorough time.Duration) time.Time {
	if Tier() == "thorough" {
		return r.start.Add(thorough)
	}
	return r.start.Add(quick)
}

type knownFile struct {
	Findings []struct {
		Property    string `json:"property"`
		Signature   string `json:"signature"`
		Description string `json:"description"`
	} `json:"findings"`
	Fixed []string `json:"fixed"`
}

func (r *Report) Add(vs ...Violation) {
	for _, v := range vs {
		if v.Property == "" {
			v.Property = r.Property
		}
		r.Violations = append(r.Violations, v)
	}
}

// Finish prints the verdict lines and writes evidence.  It returns the number
// of violations that are not listed known findings.
func (r *Report) Finish() int {
	dir := VerifDir()
	var kf knownFile
	if b, err := os.ReadFile(filepath.Join(dir, "known_findings.json")); err == nil {
		if err := json.Unmarshal(b, &kf); err != nil {
			r.HarnessErr = "known_findings.json: " + err.Error()
		}
	}
	known := map[string]string{}
	for _, f := range kf.Findings {
		known[f.Property+"|"+f.Signature] = f.Description
	}
	// one representative (the first = shortest for BFS) per signature
	bySig := map[string]Violation{}
	count := map[string]int{}
	var order []string
	for _, v := range r.Violations {
		k := v.Property + "|" + v.Sig
		if _, ok := bySig[k]; !ok {
			bySig[k] = v
			order = append(order, k)
		}
		count[k]++
	}
	sort.Strings(order)
	newViol := 0
	knownHit := 0
	for _, k := range order {
		v := bySig[k]
		if desc, ok := known[k]; ok {
			fmt.Printf("KNOWN-FINDING: property=%s %s [%s] (%d occurrences)\n", v.Property, desc, v.Sig, count[k])
			knownHit++
			continue
		}
		newViol++
		h := sha1.Sum([]byte(k))
		path := filepath.Join(dir, "replays", v.Property+"-"+hex.EncodeToString(h[:5])+".json")
		os.MkdirAll(filepath.Dir(path), 0o755)
		b, _ := json.MarshalIndent(map[string]any{"violation": v, "occurrences": count[k], "tier": Tier()}, "", " ")
		os.WriteFile(path, b, 0o644)
		fmt.Printf("VIOLATION property=%s replay=%s\n", v.Property, path)
		fmt.Printf("  signature: %s\n  detail: %s\n  history: %v\n  choices: %v\n", v.Sig, v.Detail, v.History, v.Choices)
	}
	if r.HarnessErr != "" {
		fmt.Printf("HARNESS-ERROR property=%s %s\n", r.Property, r.HarnessErr)
	}
	ev := map[string]any{
		"property_id":        r.Property,
		"tier":               Tier(),
		"seed":               Seed(),
		"level":              r.Level,
		"coverage":           r.Coverage,
		"assumptions":        r.Assumptions,
		"wall_s":             time.Since(r.start).Seconds(),
		"violations":         newViol,
		"known_findings_hit": knownHit,
	}
	if r.HarnessErr != "" {
		ev["harness_error"] = r.HarnessErr
	}
	evPath := filepath.Join(dir, "evidence", r.Property+".json")
	if os.Getenv("VERIF_APPEND") != "" && os.Getenv("VERIF_APPEND") != "0" {
		// a later part of a multi-part check: add to what the earlier parts wrote
		if old, err := os.ReadFile(evPath); err == nil {
			var prev map[string]any
			if json.Unmarshal(old, &prev) == nil {
				ev = mergeEvidence(prev, ev)
			}
		}
	}
	b, _ := json.MarshalIndent(ev, "", " ")
	os.MkdirAll(filepath.Join(dir, "evidence"), 0o755)
	if r.HarnessErr == "" {
		os.WriteFile(evPath, b, 0o644)
	}
	return newViol
}

// mergeEvidence adds the coverage of a later part to the evidence of the earlier parts.
func mergeEvidence(prev, cur map[string]any) map[string]any {
	out := prev
	pc, _ := prev["coverage"].(map[string]any)
	cc, _ := cur["coverage"].(map[string]any)
	if pc == nil {
		pc = map[string]any{}
	}
	for k, v := range cc {
		switch k {
		case "states", "transitions", "traces_validated_against_impl", "evaluations", "distinct_nontrivial", "schedules":
			pc[k] = num(pc[k]) + num(v)
		case "exhaustive":
			a, _ := pc[k].(bool)
			b, _ := v.(bool)
			if _, had := pc[k]; had {
				pc[k] = a && b
			} else {
				pc[k] = b
			}
		case "samples":
			a, _ := pc[k].([]any)
			b, _ := v.([]any)
			if b == nil {
				if bs, err := json.Marshal(v); err == nil {
					json.Unmarshal(bs, &b)
				}
			}
			pc[k] = append(a, b...)
		case "rule":
			pc[k] = fmt.Sprint(pc[k]) + " || " + fmt.Sprint(v)
		default:
			if _, had := pc[k]; had {
				pc["part2_"+k] = v
			} else {
				pc[k] = v
			}
		}
	}
	out["coverage"] = pc
	out["wall_s"] = num(prev["wall_s"]) + num(cur["wall_s"])
	out["violations"] = num(prev["violations"]) + num(cur["violations"])
	out["known_findings_hit"] = num(prev["known_findings_hit"]) + num(cur["known_findings_hit"])
	if a, ok := prev["assumptions"].([]any); ok {
		if b, err := json.Marshal(cur["assumptions"]); err == nil {
			var bl []any
			json.Unmarshal(b, &bl)
			out["assumptions"] = append(a, bl...)
		}
	}
	return out
}

func num(v any) float64 {
	switch x := v.(type) {
	case float64:
		return x
	case int:
		return float64(x)
	case int64:
		return float64(x)
	}
	return 0
}
