package explore

import (
	"time"
)

// Scenario is one closed driver explored by DFS over its choice sequences.
type Scenario struct {
	Name string
	Run  func(prefix []int) ExecResult
}

type ScenarioOpts struct {
	Test          string // test function name (for worker re-exec)
	QuickBound    int    // deviation bound for the quick tier
	ThoroughFrom  int    // thorough tier: iterate bounds from here upwards until the budget ends
	ThoroughMax   int    // ... up to here (then one unbounded pass if Unbounded)
	Unbounded     bool
	QuickBudget   time.Duration
	ThoroughBudge time.Duration
	ValidateEvery int
}

// ServeScenarios is the worker-mode body.
func ServeScenarios(scs []Scenario) {
	by := map[string]Scenario{}
	for _, sc := range scs {
		by[sc.Name] = sc
	}
	Serve(func(name string, payload []byte) any {
		sc := by[name]
		return ServeDFS(payload, func(p []int) ExecResult { return Slim(sc.Run(p)) })
	})
}

// RunScenarios explores every scenario within the tier's deviation bound(s)
// and fills the report's model-checking coverage.  Returns false if a harness
// error stopped the run.
func RunScenarios(rep *Report, scs []Scenario, o ScenarioOpts) bool {
	pool := NewPool(o.Test, Workers())
	defer pool.Close()
	deadline := rep.Budget(o.QuickBudget, o.ThoroughBudge)
	bounds := []int{o.QuickBound}
	if Tier() == "thorough" {
		bounds = nil
		for b := o.ThoroughFrom; b <= o.ThoroughMax; b++ {
			bounds = append(bounds, b)
		}
		if o.Unbounded {
			bounds = append(bounds, -1)
		}
	}
	if o.ValidateEvery == 0 {
		o.ValidateEvery = 64
	}
	total, points, validated, outcomes := 0, 0, 0, 0
	completedBound := "none"
	var per []map[string]any
	for _, b := range bounds {
		allComplete := true
		var perB []map[string]any
		seen := map[string]bool{}
		for _, sc := range scs {
			st, viols := ParallelDFS(pool, sc.Name, DFSConfig{Bound: b, Deadline: deadline, ValidateEvery: o.ValidateEvery}, sc.Run)
			if st.HarnessErr != "" {
				rep.HarnessErr = sc.Name + ": " + st.HarnessErr
				return false
			}
			rep.Add(viols...)
			total += st.Executions
			points += st.Points
			validated += st.Validated
			for k := range st.Outcomes {
				seen[sc.Name+"|"+k] = true
			}
			allComplete = allComplete && st.Complete
			perB = append(perB, map[string]any{"scenario": sc.Name, "bound": b, "schedules": st.Executions, "distinct_outcomes": len(st.Outcomes), "complete": st.Complete, "max_choice_points": st.MaxDepth, "sample_choices": st.Samples})
		}
		if len(seen) > outcomes {
			outcomes = len(seen)
		}
		if allComplete || per == nil {
			per = perB
		}
		if !allComplete {
			break
		}
		if b < 0 {
			completedBound = "unbounded"
		} else {
			completedBound = itoa(b)
		}
		if time.Now().After(deadline) {
			break
		}
	}
	if _, both := rep.Coverage["states"]; both {
		// a BFS part has already filled the top-level counts: add to them
		rep.Coverage["states"] = rep.Coverage["states"].(int) + outcomes
		rep.Coverage["transitions"] = rep.Coverage["transitions"].(int) + points
		rep.Coverage["traces_validated_against_impl"] = rep.Coverage["traces_validated_against_impl"].(int) + validated
		rep.Coverage["schedule_exploration"] = map[string]any{"distinct_outcomes": outcomes, "choice_points": points, "schedules": total,
			"deviation_bound_completed": completedBound, "scenarios": per}
		if completedBound == "none" {
			rep.Coverage["exhaustive"] = false
		}
		return true
	}
	rep.Coverage["states"] = outcomes
	rep.Coverage["transitions"] = points
	rep.Coverage["traces_validated_against_impl"] = validated
	rep.Coverage["schedules"] = total
	rep.Coverage["deviation_bound_completed"] = completedBound
	rep.Coverage["exhaustive"] = completedBound != "none"
	rep.Coverage["samples"] = per
	return true
}

func itoa(i int) string {
	if i < 0 {
		return "-" + itoa(-i)
	}
	if i < 10 {
		return string(rune('0' + i))
	}
	return itoa(i/10) + string(rune('0'+i%10))
}
