package explore

import (
	"bufio"
	"encoding/json"
	"fmt"
	"os"
	"os/exec"
	"strings"
	"sync"
)

// Process pool: the cooperative scheduler runs best with GOMAXPROCS=1, so
// parallelism comes from worker subprocesses.  The test binary re-executes
// itself with VERIF_WORKER=1; the worker serves jobs (name + JSON payload)
// over fd 3/4 and the master's explorers call them like local functions.

type job struct {
	Name    string          `json:"n"`
	Payload json.RawMessage `json:"p"`
}

func IsWorker() bool { return os.Getenv("VERIF_WORKER") == "1" }

// Serve runs the worker loop; handlers map a job name to a function from JSON
// payload to a JSON-serialisable result.
func Serve(handler func(name string, payload []byte) any) {
	in := bufio.NewReaderSize(os.NewFile(3, "jobs"), 1<<20)
	out := bufio.NewWriterSize(os.NewFile(4, "results"), 1<<20)
	for {
		line, err := in.ReadBytes('\n')
		if err != nil {
			return
		}
		var j job
		if err := json.Unmarshal(line, &j); err != nil {
			fmt.Fprintf(os.Stderr, "worker: bad job: %v\n", err)
			os.Exit(3)
		}
		res := handler(j.Name, j.Payload)
		b, err := json.Marshal(res)
		if err != nil {
			fmt.Fprintf(os.Stderr, "worker: marshal: %v\n", err)
			os.Exit(3)
		}
		out.Write(b)
		out.WriteByte('\n')
		out.Flush()
	}
}

type proc struct {
	cmd    *exec.Cmd
	in     *bufio.Writer
	out    *bufio.Reader
	stderr *strings.Builder
	dead   bool
}

type Pool struct {
	N    int
	test string
	free chan *proc
	all  []*proc
	mu   sync.Mutex
}

// NewPool starts n worker subprocesses running the given test function in
// worker mode.
func NewPool(test string, n int) *Pool {
	p := &Pool{N: n, test: test, free: make(chan *proc, n)}
	for i := 0; i < n; i++ {
		p.free <- p.start()
	}
	return p
}

func (p *Pool) start() *proc {
	jr, jw, _ := os.Pipe()
	rr, rw, _ := os.Pipe()
	cmd := exec.Command(os.Args[0], "-test.run", "^"+p.test+"$", "-test.timeout", "0")
	cmd.Env = append(os.Environ(), "VERIF_WORKER=1", "GOMAXPROCS=1")
	cmd.ExtraFiles = []*os.File{jr, rw}
	sb := &strings.Builder{}
	cmd.Stderr = sb
	cmd.Stdout = sb
	if err := cmd.Start(); err != nil {
		panic(err)
	}
	jr.Close()
	rw.Close()
	pr := &proc{cmd: cmd, in: bufio.NewWriterSize(jw, 1<<20), out: bufio.NewReaderSize(rr, 1<<20), stderr: sb}
	p.mu.Lock()
	p.all = append(p.all, pr)
	p.mu.Unlock()
	return pr
}

// Call runs one job on a free worker.  If the worker dies the error text holds
// the tail of its output; a fresh worker replaces it.
func (p *Pool) Call(name string, payload any, result any) error {
	pr := <-p.free
	pb, _ := json.Marshal(payload)
	jb, _ := json.Marshal(job{Name: name, Payload: pb})
	pr.in.Write(jb)
	pr.in.WriteByte('\n')
	err := pr.in.Flush()
	var line []byte
	if err == nil {
		line, err = pr.out.ReadBytes('\n')
	}
	if err != nil {
		pr.cmd.Wait()
		tail := pr.stderr.String()
		if len(tail) > 3000 {
			tail = tail[:1500] + "\n...\n" + tail[len(tail)-1500:]
		}
		p.free <- p.start()
		return fmt.Errorf("worker died running %s %s: %s", name, pb, tail)
	}
	p.free <- pr
	return json.Unmarshal(line, result)
}

func (p *Pool) Close() {
	p.mu.Lock()
	defer p.mu.Unlock()
	for _, pr := range p.all {
		pr.cmd.Process.Kill()
		pr.cmd.Wait()
	}
}

// Slim drops the per-alternative labels (only needed for reporting).
func Slim(r ExecResult) ExecResult {
	if len(r.Violations) > 0 {
		return r
	}
	for i := range r.Trace {
		r.Trace[i].Labels = nil
	}
	return r
}

// DFSRunner returns a run function that executes the named job on the pool.
func (p *Pool) DFSRunner(name string) func(prefix []int) ExecResult {
	return func(prefix []int) ExecResult {
		var r ExecResult
		if err := p.Call(name, prefix, &r); err != nil {
			r.HarnessErr = err.Error()
		}
		return r
	}
}

// BFSRunner runs batches of history replays on the pool.
func (p *Pool) BFSRunner(name string) func(hists [][]string) []StateResult {
	return func(hists [][]string) []StateResult {
		var r []StateResult
		if err := p.Call(name, hists, &r); err != nil || len(r) != len(hists) {
			r = make([]StateResult, len(hists))
			for i := range r {
				r[i].HarnessErr = fmt.Sprint("batch failed: ", err)
			}
		}
		return r
	}
}

// ServeBFS is the worker-side handler body for BFS batches.
func ServeBFS(payload []byte, run func(hist []string) StateResult) any {
	var hs [][]string
	if err := json.Unmarshal(payload, &hs); err != nil {
		return []StateResult{{HarnessErr: "bad bfs job"}}
	}
	out := make([]StateResult, len(hs))
	for i, h := range hs {
		out[i] = run(h)
	}
	return out
}
