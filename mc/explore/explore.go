// Package explore holds the explorers: stateless deviation-bounded DFS over
// choice sequences (E2 / fault enumeration) and explicit-state BFS over event
// histories (E1), plus result/evidence plumbing shared by all checks.
package explore

import (
	"encoding/json"
	"fmt"
	"os"
	"runtime"
	"sort"
	"strings"
	"sync"
	"testing"
	"testing/synctest"
	"time"

	"verif/mc/vsched"
)

type Violation struct {
	Property string   `json:"property"`
	Sig      string   `json:"signature"` // structural class, matched against known_findings.json
	Detail   string   `json:"detail"`
	Scenario string   `json:"scenario,omitempty"`
	History  []string `json:"history,omitempty"`
	Choices  []int    `json:"choices,omitempty"`
}

type ExecResult struct {
	Trace      []vsched.Step
	Outcome    string
	Violations []Violation
	HarnessErr string
	Panics     []string
}

// Bubble runs body inside a fresh synctest bubble with a fresh scheduler
// replaying prefix.  body runs on the root goroutine (the scheduler/driver).
// Goroutines still blocked when body returns are reported as leaked.
func Bubble(t *testing.T, prefix []int, body func(s *vsched.Sched) (outcome string, v []Violation)) (res ExecResult, leaked bool) {
	defer func() {
		if r := recover(); r != nil {
			msg := fmt.Sprint(r)
			if strings.Contains(msg, "deadlock: main bubble goroutine has exited") {
				leaked = true
				return
			}
			panic(r)
		}
	}()
	// watchdog (real time, outside the bubble): an execution that does not end is a
	// harness problem (or a livelock in the code under test) and must not hang the check
	stuck := time.AfterFunc(90*time.Second, func() {
		buf := make([]byte, 1<<20)
		n := runtime.Stack(buf, true)
		fmt.Fprintf(os.Stderr, "EXECUTION STUCK (90 s wall clock) prefix=%v\n%s\n", prefix, buf[:n])
		os.Exit(3)
	})
	defer stuck.Stop()
	synctest.Test(t, func(t *testing.T) {
		s := vsched.New(prefix)
		defer func() {
			res.Trace = s.Trace
			res.HarnessErr = s.HarnessEr
			res.Panics = s.Panics
			s.Finish()
		}()
		res.Outcome, res.Violations = body(s)
	})
	return
}

func Choices(tr []vsched.Step) []int {
	out := make([]int, len(tr))
	for i, st := range tr {
		out[i] = st.Choice
	}
	return out
}

func stepCost(st vsched.Step, choice int) int {
	if choice == 0 {
		return 0
	}
	if st.Kind == vsched.KindData {
		return 1
	}
	if st.RunFst {
		return 1
	}
	return 0
}

type DFSConfig struct {
	Bound    int // max deviations (preemptions + non-default environment answers); <0 unbounded
	MaxExec  int // cap on executions (0 = none)
	Deadline time.Time
	// ValidateEvery re-executes every n-th execution from its recorded choices and
	// compares outcomes (determinism / trace validation). 0 = only first + violations.
	ValidateEvery int
}

type DFSStats struct {
	Executions int
	Points     int // choice points seen in total
	MaxDepth   int
	MaxDev     int
	Outcomes   map[string]int
	Complete   bool // search space within Bound exhausted
	Validated  int  // executions re-run with identical outcome
	HarnessErr string
	Samples    [][]int
}

type DFSItem struct {
	Prefix []int
	Cost   int
}

func (st *DFSStats) merge(o DFSStats) {
	st.Executions += o.Executions
	st.Points += o.Points
	st.Validated += o.Validated
	if o.MaxDepth > st.MaxDepth {
		st.MaxDepth = o.MaxDepth
	}
	if o.MaxDev > st.MaxDev {
		st.MaxDev = o.MaxDev
	}
	for k, v := range o.Outcomes {
		st.Outcomes[k] += v
	}
	st.Complete = st.Complete && o.Complete
	if st.HarnessErr == "" {
		st.HarnessErr = o.HarnessErr
	}
	for _, x := range o.Samples {
		if len(st.Samples) < 3 {
			st.Samples = append(st.Samples, x)
		}
	}
}

// DFS explores all choice sequences of run with at most cfg.Bound deviations.
func DFS(cfg DFSConfig, run func(prefix []int) ExecResult) (DFSStats, []Violation) {
	st, v, _ := dfsFrom([]DFSItem{{nil, 0}}, cfg, run, 0)
	return st, v
}

// dfsFrom explores the subtrees of the given items.  If fanout > 0 it stops
// expanding as soon as the stack holds at least fanout items (expanding
// shallowest first) and returns them for distribution.
func dfsFrom(stack []DFSItem, cfg DFSConfig, run func(prefix []int) ExecResult, fanout int) (DFSStats, []Violation, []DFSItem) {
	st := DFSStats{Outcomes: map[string]int{}, Complete: true}
	var viols []Violation
	for len(stack) > 0 {
		if fanout > 0 && len(stack) >= fanout {
			return st, viols, stack
		}
		if (cfg.MaxExec > 0 && st.Executions >= cfg.MaxExec) || (!cfg.Deadline.IsZero() && time.Now().After(cfg.Deadline)) {
			st.Complete = false
			return st, viols, nil
		}
		var it DFSItem
		if fanout > 0 {
			it = stack[0]
			stack = stack[1:]
		} else {
			it = stack[len(stack)-1]
			stack = stack[:len(stack)-1]
		}
		st.Executions++
		x := run(it.Prefix)
		if x.HarnessErr == "" && (st.Executions == 1 || len(x.Violations) > 0 || (cfg.ValidateEvery > 0 && st.Executions%cfg.ValidateEvery == 0)) {
			y := run(Choices(x.Trace))
			if y.Outcome != x.Outcome || len(y.Trace) != len(x.Trace) {
				x.HarnessErr = fmt.Sprintf("nondeterministic replay of %v:\n--- first\n%s\n--- second\n%s", Choices(x.Trace), x.Outcome, y.Outcome)
			} else {
				st.Validated++
			}
		}
		if x.HarnessErr != "" {
			st.HarnessErr = x.HarnessErr
			st.Complete = false
			return st, viols, nil
		}
		st.Outcomes[x.Outcome]++
		st.Points += len(x.Trace)
		if len(x.Trace) > st.MaxDepth {
			st.MaxDepth = len(x.Trace)
		}
		if len(st.Samples) < 3 {
			st.Samples = append(st.Samples, Choices(x.Trace))
		}
		ch := Choices(x.Trace)
		for _, v := range x.Violations {
			v.Choices = ch
			viols = append(viols, v)
		}
		cost := it.Cost
		for i := len(it.Prefix); i < len(x.Trace); i++ {
			sp := x.Trace[i]
			for alt := sp.N - 1; alt >= 1; alt-- {
				c := cost + stepCost(sp, alt)
				if cfg.Bound >= 0 && c > cfg.Bound {
					continue
				}
				if c > st.MaxDev {
					st.MaxDev = c
				}
				np := make([]int, i+1)
				copy(np, ch[:i])
				np[i] = alt
				stack = append(stack, DFSItem{np, c})
			}
			cost += stepCost(sp, sp.Choice)
		}
	}
	return st, viols, nil
}

type dfsJob struct {
	Item DFSItem
	Cfg  DFSConfig
}

type dfsJobResult struct {
	Stats DFSStats
	Viols []Violation
}

// ServeDFS is the worker-side handler body for subtree jobs.
func ServeDFS(payload []byte, run func(prefix []int) ExecResult) any {
	var j dfsJob
	if err := json.Unmarshal(payload, &j); err != nil {
		return dfsJobResult{Stats: DFSStats{HarnessErr: "bad dfs job: " + err.Error()}}
	}
	st, v, _ := dfsFrom([]DFSItem{j.Item}, j.Cfg, run, 0)
	return dfsJobResult{st, v}
}

// ParallelDFS expands the top of the tree locally and farms the subtrees out
// to the pool's worker processes (job name = name).
func ParallelDFS(pool *Pool, name string, cfg DFSConfig, run func(prefix []int) ExecResult) (DFSStats, []Violation) {
	st, viols, items := dfsFrom([]DFSItem{{nil, 0}}, cfg, run, pool.N*12)
	if st.HarnessErr != "" || len(items) == 0 {
		return st, viols
	}
	var mu sync.Mutex
	var wg sync.WaitGroup
	sem := make(chan struct{}, pool.N)
	for _, it := range items {
		wg.Add(1)
		sem <- struct{}{}
		go func(it DFSItem) {
			defer wg.Done()
			defer func() { <-sem }()
			var r dfsJobResult
			err := pool.Call(name, dfsJob{it, cfg}, &r)
			mu.Lock()
			defer mu.Unlock()
			if err != nil {
				if st.HarnessErr == "" {
					st.HarnessErr = err.Error()
				}
				st.Complete = false
				return
			}
			st.merge(r.Stats)
			viols = append(viols, r.Viols...)
		}(it)
	}
	wg.Wait()
	return st, viols
}

// ---------------- BFS over event histories (E1) ----------------

type StateResult struct {
	Key        string   // canonical state key (snapshot of the real objects + monitor)
	Next       []string // events enabled in this state (nil: terminal)
	Violations []Violation
	Class      string // verdict class of this state (for vacuity statistics)
	HarnessErr string
}

type BFSConfig struct {
	MaxDepth  int
	MaxStates int
	Deadline  time.Time
	Workers   int
	// Validate re-runs every n-th transition and compares keys.
	ValidateEvery int
}

type BFSStats struct {
	States      int
	Transitions int
	Depth       int
	Complete    bool // frontier exhausted below MaxDepth (fixpoint) or all histories up to MaxDepth explored
	Fixpoint    bool
	Classes     map[string]int
	Validated   int
	HarnessErr  string
	Samples     [][]string
}

// BFS explores event histories breadth first.  run replays a full history on a
// fresh instance (live objects cannot be cloned) and returns the reached state.
func BFS(cfg BFSConfig, run func(hist []string) StateResult) (BFSStats, []Violation) {
	return BFSBatch(cfg, func(hs [][]string) []StateResult {
		out := make([]StateResult, len(hs))
		for i, h := range hs {
			out[i] = run(h)
		}
		return out
	})
}

// BFSBatch is BFS with a batched run function (one call per chunk of
// histories; chunks of one level run concurrently on cfg.Workers goroutines,
// which are expected to block on worker subprocesses).
func BFSBatch(cfg BFSConfig, runBatch func(hists [][]string) []StateResult) (BFSStats, []Violation) {
	run := func(h []string) StateResult { return runBatch([][]string{h})[0] }
	if cfg.Workers <= 0 {
		cfg.Workers = 1
	}
	st := BFSStats{Classes: map[string]int{}, Complete: true}
	var viols []Violation
	seen := map[string]bool{}
	root := run(nil)
	if root.HarnessErr != "" {
		st.HarnessErr = root.HarnessErr
		st.Complete = false
		return st, nil
	}
	seen[root.Key] = true
	st.States = 1
	st.Classes[root.Class]++
	viols = append(viols, root.Violations...)
	type node struct {
		hist []string
		next []string
	}
	frontier := []node{{nil, root.Next}}
	for depth := 1; len(frontier) > 0; depth++ {
		if cfg.MaxDepth > 0 && depth > cfg.MaxDepth {
			st.Complete = true // complete up to MaxDepth, but not a fixpoint
			break
		}
		type job struct {
			hist []string
		}
		var jobs []job
		for _, n := range frontier {
			for _, ev := range n.next {
				h := append(append([]string{}, n.hist...), ev)
				jobs = append(jobs, job{h})
			}
		}
		results := make([]StateResult, len(jobs))
		chunk := len(jobs)/(cfg.Workers*4) + 1
		if chunk > 256 {
			chunk = 256
		}
		var wg sync.WaitGroup
		var idx int
		var mu sync.Mutex
		timedOut := false
		for w := 0; w < cfg.Workers; w++ {
			wg.Add(1)
			go func() {
				defer wg.Done()
				for {
					mu.Lock()
					lo := idx
					idx += chunk
					mu.Unlock()
					if lo >= len(jobs) {
						return
					}
					hi := lo + chunk
					if hi > len(jobs) {
						hi = len(jobs)
					}
					if !cfg.Deadline.IsZero() && time.Now().After(cfg.Deadline) {
						mu.Lock()
						timedOut = true
						mu.Unlock()
						return
					}
					hs := make([][]string, hi-lo)
					for i := lo; i < hi; i++ {
						hs[i-lo] = jobs[i].hist
					}
					rs := runBatch(hs)
					if cfg.ValidateEvery > 0 && (lo/chunk)%cfg.ValidateEvery == 0 && rs[0].HarnessErr == "" {
						r2 := runBatch(hs[:1])[0]
						if r2.Key != rs[0].Key {
							rs[0].HarnessErr = fmt.Sprintf("nondeterministic replay of history %v:\n%s\n---\n%s", hs[0], rs[0].Key, r2.Key)
						} else {
							mu.Lock()
							st.Validated++
							mu.Unlock()
						}
					}
					copy(results[lo:hi], rs)
				}
			}()
		}
		wg.Wait()
		if timedOut {
			st.Complete = false
			break
		}
		var nf []node
		for i, r := range results {
			if r.HarnessErr != "" {
				st.HarnessErr = r.HarnessErr
				st.Complete = false
				return st, viols
			}
			st.Transitions++
			for _, v := range r.Violations {
				if v.History == nil {
					v.History = jobs[i].hist
				}
				viols = append(viols, v)
			}
			if seen[r.Key] {
				continue
			}
			seen[r.Key] = true
			st.States++
			st.Classes[r.Class]++
			st.Depth = depth
			if len(st.Samples) < 4 || (depth > len(st.Samples[len(st.Samples)-1]) && len(st.Samples) < 8) {
				st.Samples = append(st.Samples, jobs[i].hist)
			}
			if cfg.MaxStates > 0 && st.States >= cfg.MaxStates {
				st.Complete = false
				return st, viols
			}
			if len(r.Next) > 0 {
				nf = append(nf, node{jobs[i].hist, r.Next})
			}
		}
		frontier = nf
		if len(frontier) == 0 {
			st.Fixpoint = true
		}
	}
	return st, viols
}

// SortedKeys is a helper for canonical map rendering.
func SortedKeys[V any](m map[string]V) []string {
	k := make([]string, 0, len(m))
	for x := range m {
		k = append(k, x)
	}
	sort.Strings(k)
	return k
}
