// Package refmatch is a reference implementation of MQTT 3.1.1 topic filter
// matching (section 4.7), written from the specification text.
package refmatch

import "strings"

// ValidFilter: '#' only as the whole last level, '+' only as a whole level, non-empty.
func ValidFilter(f string) bool {
	if f == "" {
		return false
	}
	ls := strings.Split(f, "/")
	for i, l := range ls {
		if strings.Contains(l, "#") && (l != "#" || i != len(ls)-1) {
			return false
		}
		if strings.Contains(l, "+") && l != "+" {
			return false
		}
	}
	return true
}

// Match reports whether topic name t matches filter f ('$'-topics are not special-cased).
func Match(f, t string) bool {
	fl, tl := strings.Split(f, "/"), strings.Split(t, "/")
	for i, l := range fl {
		if l == "#" {
			// multi-level wildcard: matches the parent level and any number of child levels
			return len(tl) >= i
		}
		if i >= len(tl) {
			return false
		}
		if l != "+" && l != tl[i] {
			return false
		}
	}
	return len(fl) == len(tl)
}
