// Package broker is a small conforming MQTT 3.1.1 broker model for one client
// connection (plus an external publisher driven by the harness): CONNACK,
// per-filter subscriptions with granted QoS, the QoS 1/2 acknowledgement flows
// in both directions, routing of matching publishes back to the client.  It is
// written from the MQTT 3.1.1 specification and trusts nothing of bisquitt.
package broker

import (
	"fmt"
	"sort"

	"verif/mc/ref/refmatch"
	"verif/mc/ref/refmqtt"
)

type Msg struct {
	Topic   string
	Payload string
	QoS     byte
	Retain  bool
}

func (m Msg) String() string { return fmt.Sprintf("%q=%q/q%d/r%t", m.Topic, m.Payload, m.QoS, m.Retain) }

type out struct {
	msg   Msg
	state string // puback pubrec pubcomp
}

type Model struct {
	Connects   int
	Connected  bool
	Closed     bool // DISCONNECT received (will discarded)
	ClientID   string
	KeepAlive  uint16
	Will       *Msg
	User       string
	HasUser    bool
	Subs       map[string]byte // filter -> granted QoS
	Received   []Msg           // application messages accepted from the client, in order
	q2in       map[uint16]bool
	nextID     uint16
	Out        map[uint16]*out // outbound messages in flight
	Completed  []Msg           // outbound messages fully acknowledged by the client (QoS 0: sent)
	Pings      int
	Errors     []string // protocol violations by the client side (the gateway)
	Log        []string
	RejectConn byte // CONNACK return code to answer with
}

func New() *Model {
	return &Model{Subs: map[string]byte{}, q2in: map[uint16]bool{}, Out: map[uint16]*out{}}
}

func (m *Model) errf(f string, a ...any) { m.Errors = append(m.Errors, fmt.Sprintf(f, a...)) }

// Handle processes one packet from the gateway and returns the packets the broker sends back.
func (m *Model) Handle(p refmqtt.Pkt) [][]byte {
	m.Log = append(m.Log, p.String())
	if len(p.Invalid) > 0 {
		m.errf("invalid packet %s: %v", p.String(), p.Invalid)
	}
	if p.Type != refmqtt.CONNECT && !m.Connected {
		m.errf("%s before CONNECT", p.Name())
		return nil
	}
	switch p.Type {
	case refmqtt.CONNECT:
		m.Connects++
		if m.Connected {
			m.errf("second CONNECT on one connection")
			return nil
		}
		if m.RejectConn != 0 {
			return [][]byte{refmqtt.EncConnack(m.RejectConn)}
		}
		m.Connected = true
		m.ClientID, m.KeepAlive, m.User, m.HasUser = p.ClientID, p.KeepAlive, p.User, p.HasUser
		if p.WillFlag {
			m.Will = &Msg{p.WillTopic, string(p.WillMsg), p.WillQoS, p.WillRetain}
		}
		return [][]byte{refmqtt.EncConnack(0)}
	case refmqtt.SUBSCRIBE:
		var rcs []byte
		for i, f := range p.Filters {
			m.Subs[f] = p.QoSs[i]
			rcs = append(rcs, p.QoSs[i])
		}
		return [][]byte{refmqtt.EncSuback(p.ID, rcs...)}
	case refmqtt.UNSUBSCRIBE:
		for _, f := range p.Filters {
			delete(m.Subs, f)
		}
		return [][]byte{refmqtt.EncUnsuback(p.ID)}
	case refmqtt.PUBLISH:
		msg := Msg{p.Topic, string(p.Payload), p.QoS, p.Retain}
		var r [][]byte
		switch p.QoS {
		case 0:
			m.Received = append(m.Received, msg)
			r = append(r, m.route(msg)...)
		case 1:
			m.Received = append(m.Received, msg)
			r = append(r, refmqtt.EncPuback(p.ID))
			r = append(r, m.route(msg)...)
		case 2:
			if !m.q2in[p.ID] {
				m.q2in[p.ID] = true
				m.Received = append(m.Received, msg)
				r = append(r, refmqtt.EncPubrec(p.ID))
				r = append(r, m.route(msg)...)
			} else {
				r = append(r, refmqtt.EncPubrec(p.ID))
			}
		}
		return r
	case refmqtt.PUBREL:
		delete(m.q2in, p.ID)
		return [][]byte{refmqtt.EncPubcomp(p.ID)}
	case refmqtt.PUBACK:
		o, ok := m.Out[p.ID]
		if !ok || o.state != "puback" {
			m.errf("PUBACK(%d) without a QoS 1 message in flight", p.ID)
			return nil
		}
		delete(m.Out, p.ID)
		m.Completed = append(m.Completed, o.msg)
	case refmqtt.PUBREC:
		o, ok := m.Out[p.ID]
		if !ok || (o.state != "pubrec" && o.state != "pubcomp") {
			m.errf("PUBREC(%d) without a QoS 2 message in flight", p.ID)
			return nil
		}
		o.state = "pubcomp"
		return [][]byte{refmqtt.EncPubrel(p.ID)}
	case refmqtt.PUBCOMP:
		o, ok := m.Out[p.ID]
		if !ok || o.state != "pubcomp" {
			m.errf("PUBCOMP(%d) without a released QoS 2 message", p.ID)
			return nil
		}
		delete(m.Out, p.ID)
		m.Completed = append(m.Completed, o.msg)
	case refmqtt.PINGREQ:
		m.Pings++
		return [][]byte{refmqtt.EncPingresp()}
	case refmqtt.DISCONNECT:
		m.Closed = true
		m.Connected = false
		m.Will = nil
	default:
		m.errf("packet type %s sent to a broker", p.Name())
	}
	return nil
}

// route returns the PUBLISH the broker sends to this client for msg (nil if no subscription matches).
func (m *Model) route(msg Msg) [][]byte {
	best, found := byte(0), false
	for f, q := range m.Subs {
		if refmatch.Match(f, msg.Topic) {
			found = true
			if q > best {
				best = q
			}
		}
	}
	if !found {
		return nil
	}
	q := msg.QoS
	if best < q {
		q = best
	}
	d := Msg{msg.Topic, msg.Payload, q, false}
	if q == 0 {
		m.Completed = append(m.Completed, d)
		return [][]byte{refmqtt.EncPublish(d.Topic, 0, false, false, 0, []byte(d.Payload))}
	}
	m.nextID++
	if m.nextID == 0 {
		m.nextID = 1
	}
	st := "puback"
	if q == 2 {
		st = "pubrec"
	}
	m.Out[m.nextID] = &out{d, st}
	return [][]byte{refmqtt.EncPublish(d.Topic, q, false, false, m.nextID, []byte(d.Payload))}
}

// Publish is the external publisher: returns the packets to send to this client.
func (m *Model) Publish(topic, payload string, qos byte) [][]byte {
	if !m.Connected {
		return nil
	}
	return m.route(Msg{topic, payload, qos, false})
}

// InFlight lists outbound messages not yet acknowledged.
func (m *Model) InFlight() []string {
	var s []string
	for id, o := range m.Out {
		s = append(s, fmt.Sprintf("%d:%s:%s", id, o.msg, o.state))
	}
	sort.Strings(s)
	return s
}

func (m *Model) Snapshot() string {
	var subs []string
	for f, q := range m.Subs {
		subs = append(subs, fmt.Sprintf("%s/q%d", f, q))
	}
	sort.Strings(subs)
	return fmt.Sprintf("conn=%t closed=%t subs=%v recv=%v inflight=%v done=%v will=%v err=%d", m.Connected, m.Closed, subs, m.Received, m.InFlight(), m.Completed, m.Will != nil, len(m.Errors))
}
