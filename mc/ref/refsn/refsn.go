// Package refsn is an independent reference codec for MQTT-SN 1.2 datagrams
// (plus bisquitt's AUTH extension, message type 0x03), written from the
// specification's field tables (sections 5.2-5.4), not from bisquitt's code.
package refsn

import (
	"errors"
	"fmt"
)

const (
	ADVERTISE     = 0x00
	SEARCHGW      = 0x01
	GWINFO        = 0x02
	AUTH          = 0x03
	CONNECT       = 0x04
	CONNACK       = 0x05
	WILLTOPICREQ  = 0x06
	WILLTOPIC     = 0x07
	WILLMSGREQ    = 0x08
	WILLMSG       = 0x09
	REGISTER      = 0x0A
	REGACK        = 0x0B
	PUBLISH       = 0x0C
	PUBACK        = 0x0D
	PUBCOMP       = 0x0E
	PUBREC        = 0x0F
	PUBREL        = 0x10
	SUBSCRIBE     = 0x12
	SUBACK        = 0x13
	UNSUBSCRIBE   = 0x14
	UNSUBACK      = 0x15
	PINGREQ       = 0x16
	PINGRESP      = 0x17
	DISCONNECT    = 0x18
	WILLTOPICUPD  = 0x1A
	WILLTOPICRESP = 0x1B
	WILLMSGUPD    = 0x1C
	WILLMSGRESP   = 0x1D
)

var Names = map[byte]string{
	ADVERTISE: "ADVERTISE", SEARCHGW: "SEARCHGW", GWINFO: "GWINFO", AUTH: "AUTH", CONNECT: "CONNECT", CONNACK: "CONNACK",
	WILLTOPICREQ: "WILLTOPICREQ", WILLTOPIC: "WILLTOPIC", WILLMSGREQ: "WILLMSGREQ", WILLMSG: "WILLMSG", REGISTER: "REGISTER",
	REGACK: "REGACK", PUBLISH: "PUBLISH", PUBACK: "PUBACK", PUBCOMP: "PUBCOMP", PUBREC: "PUBREC", PUBREL: "PUBREL",
	SUBSCRIBE: "SUBSCRIBE", SUBACK: "SUBACK", UNSUBSCRIBE: "UNSUBSCRIBE", UNSUBACK: "UNSUBACK", PINGREQ: "PINGREQ",
	PINGRESP: "PINGRESP", DISCONNECT: "DISCONNECT", WILLTOPICUPD: "WILLTOPICUPD", WILLTOPICRESP: "WILLTOPICRESP",
	WILLMSGUPD: "WILLMSGUPD", WILLMSGRESP: "WILLMSGRESP",
}

// AllTypes lists the defined message types in ascending order.
var AllTypes = []byte{0x00, 0x01, 0x02, 0x03, 0x04, 0x05, 0x06, 0x07, 0x08, 0x09, 0x0A, 0x0B, 0x0C, 0x0D, 0x0E, 0x0F, 0x10,
	0x12, 0x13, 0x14, 0x15, 0x16, 0x17, 0x18, 0x1A, 0x1B, 0x1C, 0x1D}

// Pkt is a decoded datagram: the union of all fields of all message types.
type Pkt struct {
	Type   byte
	HdrLen int // 2 or 4: the form actually used by the datagram
	Length int // the announced length
	Size   int // the datagram size

	HasFlags bool
	DUP      bool
	QoS      uint8
	Retain   bool
	Will     bool
	Clean    bool
	TIT      uint8

	TopicID  uint16
	MsgID    uint16
	Duration uint16
	HasDur   bool
	RC       byte
	GwID     byte
	Radius   byte
	ProtoID  byte
	Reason   byte
	Str      string // topic name, will topic, auth method
	Data     []byte // payload, client id, will message, gateway address, auth data
}

func (p Pkt) Name() string {
	if n, ok := Names[p.Type]; ok {
		return n
	}
	return fmt.Sprintf("type%#x", p.Type)
}

func (p Pkt) String() string {
	s := p.Name()
	if p.HasFlags {
		s += fmt.Sprintf("{dup=%t qos=%d ret=%t will=%t clean=%t tit=%d}", p.DUP, p.QoS, p.Retain, p.Will, p.Clean, p.TIT)
	}
	return s + fmt.Sprintf("(tid=%d mid=%d dur=%d rc=%d str=%q data=%q)", p.TopicID, p.MsgID, p.Duration, p.RC, p.Str, trunc(p.Data))
}

func trunc(b []byte) []byte {
	if len(b) > 24 {
		return append(append([]byte{}, b[:20]...), []byte(fmt.Sprintf("...(%d)", len(b)))...)
	}
	return b
}

func u16(b []byte) uint16 { return uint16(b[0])<<8 | uint16(b[1]) }

func (p *Pkt) flags(b byte) {
	p.HasFlags = true
	p.DUP = b&0x80 != 0
	p.QoS = (b >> 5) & 3
	p.Retain = b&0x10 != 0
	p.Will = b&0x08 != 0
	p.Clean = b&0x04 != 0
	p.TIT = b & 3
}

var ErrShort = errors.New("refsn: datagram too short")

// Decode decodes one datagram.  The header length is decided by the form the
// datagram uses (first octet 0x01 = 3-octet length); the body is the rest of
// the datagram.
func Decode(b []byte) (Pkt, error) {
	var p Pkt
	p.Size = len(b)
	if len(b) < 2 {
		return p, ErrShort
	}
	if b[0] == 0x01 {
		if len(b) < 4 {
			return p, ErrShort
		}
		p.HdrLen, p.Length, p.Type = 4, int(u16(b[1:3])), b[3]
	} else {
		p.HdrLen, p.Length, p.Type = 2, int(b[0]), b[1]
	}
	body := b[p.HdrLen:]
	n := len(body)
	bad := func() (Pkt, error) { return p, fmt.Errorf("refsn: bad %s body length %d", p.Name(), n) }
	switch p.Type {
	case ADVERTISE:
		if n != 3 {
			return bad()
		}
		p.GwID, p.Duration = body[0], u16(body[1:3])
	case SEARCHGW:
		if n != 1 {
			return bad()
		}
		p.Radius = body[0]
	case GWINFO:
		if n < 1 {
			return bad()
		}
		p.GwID, p.Data = body[0], body[1:]
	case AUTH:
		if n < 2 || n < 2+int(body[1]) {
			return bad()
		}
		ml := int(body[1])
		p.Reason, p.Str, p.Data = body[0], string(body[2:2+ml]), body[2+ml:]
	case CONNECT:
		if n < 5 {
			return bad()
		}
		p.flags(body[0])
		p.ProtoID, p.Duration, p.Data = body[1], u16(body[2:4]), body[4:]
		if p.ProtoID != 1 {
			return p, errors.New("refsn: bad protocol id")
		}
	case CONNACK, WILLTOPICRESP, WILLMSGRESP:
		if n != 1 {
			return bad()
		}
		p.RC = body[0]
	case WILLTOPICREQ, WILLMSGREQ, PINGRESP:
		if n != 0 {
			return bad()
		}
	case WILLTOPIC, WILLTOPICUPD:
		if n == 1 {
			return bad()
		}
		if n >= 2 {
			p.flags(body[0])
			p.Str = string(body[1:])
		}
	case WILLMSG, WILLMSGUPD:
		p.Data = body
	case REGISTER:
		if n < 5 {
			return bad()
		}
		p.TopicID, p.MsgID, p.Str = u16(body[0:2]), u16(body[2:4]), string(body[4:])
	case REGACK, PUBACK:
		if n != 5 {
			return bad()
		}
		p.TopicID, p.MsgID, p.RC = u16(body[0:2]), u16(body[2:4]), body[4]
	case PUBLISH:
		if n < 5 {
			return bad()
		}
		p.flags(body[0])
		p.TopicID, p.MsgID, p.Data = u16(body[1:3]), u16(body[3:5]), body[5:]
	case PUBCOMP, PUBREC, PUBREL, UNSUBACK:
		if n != 2 {
			return bad()
		}
		p.MsgID = u16(body)
	case SUBSCRIBE, UNSUBSCRIBE:
		if n < 4 {
			return bad()
		}
		p.flags(body[0])
		p.MsgID = u16(body[1:3])
		switch p.TIT {
		case 0:
			p.Str = string(body[3:])
		case 1, 2:
			if n != 5 {
				return bad()
			}
			p.TopicID = u16(body[3:5])
		default:
			return p, errors.New("refsn: reserved topic id type")
		}
	case SUBACK:
		if n != 6 {
			return bad()
		}
		p.flags(body[0])
		p.TopicID, p.MsgID, p.RC = u16(body[1:3]), u16(body[3:5]), body[5]
	case PINGREQ:
		p.Data = body
	case DISCONNECT:
		switch n {
		case 0:
		case 2:
			p.Duration, p.HasDur = u16(body), true
		default:
			return bad()
		}
	default:
		return p, fmt.Errorf("refsn: undefined message type %#x", p.Type)
	}
	return p, nil
}

func (p Pkt) flagByte() byte {
	var b byte
	if p.DUP {
		b |= 0x80
	}
	b |= (p.QoS & 3) << 5
	if p.Retain {
		b |= 0x10
	}
	if p.Will {
		b |= 0x08
	}
	if p.Clean {
		b |= 0x04
	}
	return b | p.TIT&3
}

func be(v uint16) []byte { return []byte{byte(v >> 8), byte(v)} }

// Body encodes the message body (everything after the header).
func (p Pkt) Body() []byte {
	var o []byte
	switch p.Type {
	case ADVERTISE:
		o = append([]byte{p.GwID}, be(p.Duration)...)
	case SEARCHGW:
		o = []byte{p.Radius}
	case GWINFO:
		o = append([]byte{p.GwID}, p.Data...)
	case AUTH:
		o = append([]byte{p.Reason, byte(len(p.Str))}, p.Str...)
		o = append(o, p.Data...)
	case CONNECT:
		o = append([]byte{p.flagByte(), p.ProtoID}, be(p.Duration)...)
		o = append(o, p.Data...)
	case CONNACK, WILLTOPICRESP, WILLMSGRESP:
		o = []byte{p.RC}
	case WILLTOPICREQ, WILLMSGREQ, PINGRESP:
	case WILLTOPIC, WILLTOPICUPD:
		if p.Str != "" {
			o = append([]byte{p.flagByte()}, p.Str...)
		}
	case WILLMSG, WILLMSGUPD, PINGREQ:
		o = append(o, p.Data...)
	case REGISTER:
		o = append(append(be(p.TopicID), be(p.MsgID)...), p.Str...)
	case REGACK, PUBACK:
		o = append(append(be(p.TopicID), be(p.MsgID)...), p.RC)
	case PUBLISH:
		o = append(append([]byte{p.flagByte()}, be(p.TopicID)...), be(p.MsgID)...)
		o = append(o, p.Data...)
	case PUBCOMP, PUBREC, PUBREL, UNSUBACK:
		o = be(p.MsgID)
	case SUBSCRIBE, UNSUBSCRIBE:
		o = append([]byte{p.flagByte()}, be(p.MsgID)...)
		if p.TIT == 0 {
			o = append(o, p.Str...)
		} else {
			o = append(o, be(p.TopicID)...)
		}
	case SUBACK:
		o = append(append([]byte{p.flagByte()}, be(p.TopicID)...), be(p.MsgID)...)
		o = append(o, p.RC)
	case DISCONNECT:
		if p.Duration != 0 || p.HasDur {
			o = be(p.Duration)
		}
	}
	return o
}

// Encode encodes the message with the canonical header: 1-octet length when
// the whole datagram fits in 255 octets, else the 3-octet form.
func (p Pkt) Encode() []byte {
	body := p.Body()
	if len(body)+2 <= 255 {
		return append([]byte{byte(len(body) + 2), p.Type}, body...)
	}
	l := len(body) + 4
	return append([]byte{0x01, byte(l >> 8), byte(l), p.Type}, body...)
}

// GatewayMaySend / ClientMaySend: direction validity (spec 5.4 + AUTH extension).
func GatewayMaySend(t byte) bool {
	switch t {
	case ADVERTISE, GWINFO, CONNACK, WILLTOPICREQ, WILLMSGREQ, REGISTER, REGACK, PUBLISH, PUBACK, PUBCOMP, PUBREC, PUBREL,
		SUBACK, UNSUBACK, PINGREQ, PINGRESP, DISCONNECT, WILLTOPICRESP, WILLMSGRESP:
		return true
	}
	return false
}

func ClientMaySend(t byte) bool {
	switch t {
	case SEARCHGW, GWINFO, AUTH, CONNECT, WILLTOPIC, WILLMSG, REGISTER, REGACK, PUBLISH, PUBACK, PUBCOMP, PUBREC, PUBREL,
		SUBSCRIBE, UNSUBSCRIBE, PINGREQ, PINGRESP, DISCONNECT, WILLTOPICUPD, WILLMSGUPD:
		return true
	}
	return false
}
