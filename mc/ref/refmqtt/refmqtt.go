// Package refmqtt is an independent MQTT 3.1.1 packet parser, validator and
// (for the broker side of the harness) encoder, written from the OASIS
// specification, not from the paho packets package bisquitt uses.
package refmqtt

import (
	"errors"
	"fmt"
	"strings"
	"unicode/utf8"
)

const (
	CONNECT     = 1
	CONNACK     = 2
	PUBLISH     = 3
	PUBACK      = 4
	PUBREC      = 5
	PUBREL      = 6
	PUBCOMP     = 7
	SUBSCRIBE   = 8
	SUBACK      = 9
	UNSUBSCRIBE = 10
	UNSUBACK    = 11
	PINGREQ     = 12
	PINGRESP    = 13
	DISCONNECT  = 14
)

var names = []string{"RESERVED0", "CONNECT", "CONNACK", "PUBLISH", "PUBACK", "PUBREC", "PUBREL", "PUBCOMP", "SUBSCRIBE", "SUBACK", "UNSUBSCRIBE", "UNSUBACK", "PINGREQ", "PINGRESP", "DISCONNECT", "RESERVED15"}

// Pkt is one parsed MQTT control packet.
type Pkt struct {
	Type    byte
	Flags   byte // low nibble of the first byte
	Dup     bool
	QoS     byte
	Retain  bool
	ID      uint16
	Topic   string
	Payload []byte
	// SUBSCRIBE / UNSUBSCRIBE
	Filters []string
	QoSs    []byte
	// CONNECT
	ProtoName            string
	ProtoLevel           byte
	ConnFlags            byte
	CleanSession         bool
	WillFlag, WillRetain bool
	WillQoS              byte
	HasUser, HasPass     bool
	KeepAlive            uint16
	ClientID, WillTopic  string
	WillMsg              []byte
	User                 string
	Pass                 []byte
	// CONNACK / SUBACK
	RC  byte
	RCs []byte
	// every violation of MQTT 3.1.1 found in this packet
	Invalid []string
	Raw     []byte
}

func (p Pkt) Name() string { return names[p.Type&15] }

func (p Pkt) String() string {
	switch p.Type {
	case CONNECT:
		return fmt.Sprintf("CONNECT(id=%q ka=%d clean=%t will=%t/%q/%q/q%d/r%t user=%t/%q pass=%t/%q)", p.ClientID, p.KeepAlive, p.CleanSession, p.WillFlag, p.WillTopic, p.WillMsg, p.WillQoS, p.WillRetain, p.HasUser, p.User, p.HasPass, p.Pass)
	case PUBLISH:
		pl := string(p.Payload)
		if len(pl) > 16 {
			pl = fmt.Sprintf("%s..(%d)", pl[:12], len(pl))
		}
		return fmt.Sprintf("PUBLISH(topic=%q q%d dup=%t ret=%t id=%d payload=%q)", p.Topic, p.QoS, p.Dup, p.Retain, p.ID, pl)
	case SUBSCRIBE:
		return fmt.Sprintf("SUBSCRIBE(id=%d %q q=%v)", p.ID, p.Filters, p.QoSs)
	case UNSUBSCRIBE:
		return fmt.Sprintf("UNSUBSCRIBE(id=%d %q)", p.ID, p.Filters)
	case PINGREQ, PINGRESP, DISCONNECT:
		return p.Name()
	case CONNACK:
		return fmt.Sprintf("CONNACK(rc=%d)", p.RC)
	case SUBACK:
		return fmt.Sprintf("SUBACK(id=%d rc=%v)", p.ID, p.RCs)
	}
	return fmt.Sprintf("%s(id=%d)", p.Name(), p.ID)
}

var ErrIncomplete = errors.New("refmqtt: incomplete packet")

type rd struct {
	b   []byte
	err bool
}

func (r *rd) u8() byte {
	if len(r.b) < 1 {
		r.err = true
		return 0
	}
	v := r.b[0]
	r.b = r.b[1:]
	return v
}
func (r *rd) u16() uint16 { return uint16(r.u8())<<8 | uint16(r.u8()) }
func (r *rd) bytes() []byte {
	n := int(r.u16())
	if r.err || len(r.b) < n {
		r.err = true
		return nil
	}
	v := r.b[:n]
	r.b = r.b[n:]
	return v
}

func (p *Pkt) bad(f string, a ...any) { p.Invalid = append(p.Invalid, fmt.Sprintf(f, a...)) }

func (p *Pkt) str(r *rd, what string) string {
	b := r.bytes()
	if !utf8.Valid(b) {
		p.bad("%s is not valid UTF-8", what)
	}
	if strings.ContainsRune(string(b), 0) {
		p.bad("%s contains U+0000", what)
	}
	return string(b)
}

// Parse parses the first packet in b and returns it with the number of bytes
// consumed.  ErrIncomplete means more bytes are needed.  Protocol violations
// are collected in Pkt.Invalid (the parse continues where possible).
func Parse(b []byte) (Pkt, int, error) {
	var p Pkt
	if len(b) < 2 {
		return p, 0, ErrIncomplete
	}
	p.Type, p.Flags = b[0]>>4, b[0]&15
	rl, mult, i := 0, 1, 1
	for {
		if i >= len(b) {
			return p, 0, ErrIncomplete
		}
		d := b[i]
		i++
		rl += int(d&127) * mult
		mult *= 128
		if d&128 == 0 {
			break
		}
		if i > 4 {
			return p, 0, errors.New("refmqtt: malformed remaining length")
		}
	}
	if len(b) < i+rl {
		return p, 0, ErrIncomplete
	}
	p.Raw = b[:i+rl]
	r := &rd{b: b[i : i+rl]}
	wantFlags := func(f byte) {
		if p.Flags != f {
			p.bad("fixed header flags %#x, must be %#x", p.Flags, f)
		}
	}
	switch p.Type {
	case CONNECT:
		wantFlags(0)
		p.ProtoName = string(r.bytes())
		p.ProtoLevel = r.u8()
		p.ConnFlags = r.u8()
		p.KeepAlive = r.u16()
		if p.ProtoName != "MQTT" {
			p.bad("protocol name %q", p.ProtoName)
		}
		if p.ProtoLevel != 4 {
			p.bad("protocol level %d", p.ProtoLevel)
		}
		f := p.ConnFlags
		if f&1 != 0 {
			p.bad("CONNECT reserved flag set")
		}
		p.CleanSession, p.WillFlag, p.WillQoS, p.WillRetain, p.HasPass, p.HasUser = f&2 != 0, f&4 != 0, (f>>3)&3, f&32 != 0, f&64 != 0, f&128 != 0
		p.ClientID = p.str(r, "client id")
		if p.WillFlag {
			p.WillTopic = p.str(r, "will topic")
			p.WillMsg = r.bytes()
			if p.WillQoS == 3 {
				p.bad("will QoS 3")
			}
			if p.WillTopic == "" {
				p.bad("will flag set with empty will topic")
			}
			if strings.ContainsAny(p.WillTopic, "+#") {
				p.bad("will topic %q contains wildcards", p.WillTopic)
			}
		} else if p.WillQoS != 0 || p.WillRetain {
			p.bad("will QoS/retain set without will flag")
		}
		if p.HasUser {
			p.User = p.str(r, "user name")
		}
		if p.HasPass {
			if !p.HasUser {
				p.bad("password flag without user name flag")
			}
			p.Pass = r.bytes()
		}
		if p.ClientID == "" && !p.CleanSession {
			p.bad("empty client id without clean session")
		}
	case CONNACK:
		wantFlags(0)
		r.u8()
		p.RC = r.u8()
	case PUBLISH:
		p.Dup, p.QoS, p.Retain = p.Flags&8 != 0, (p.Flags>>1)&3, p.Flags&1 != 0
		if p.QoS == 3 {
			p.bad("PUBLISH QoS 3")
		}
		if p.QoS == 0 && p.Dup {
			p.bad("PUBLISH DUP set with QoS 0")
		}
		p.Topic = p.str(r, "topic name")
		if p.Topic == "" {
			p.bad("PUBLISH with empty topic name")
		}
		if strings.ContainsAny(p.Topic, "+#") {
			p.bad("PUBLISH topic name %q contains wildcards", p.Topic)
		}
		if p.QoS > 0 {
			p.ID = r.u16()
			if p.ID == 0 {
				p.bad("PUBLISH QoS %d with packet id 0", p.QoS)
			}
		}
		p.Payload = r.b
		r.b = nil
	case PUBACK, PUBREC, PUBCOMP, UNSUBACK:
		wantFlags(0)
		p.ID = r.u16()
		if p.ID == 0 {
			p.bad("%s with packet id 0", p.Name())
		}
	case PUBREL:
		wantFlags(2)
		p.ID = r.u16()
		if p.ID == 0 {
			p.bad("PUBREL with packet id 0")
		}
	case SUBSCRIBE:
		wantFlags(2)
		p.ID = r.u16()
		if p.ID == 0 {
			p.bad("SUBSCRIBE with packet id 0")
		}
		for len(r.b) > 0 && !r.err {
			f := p.str(r, "topic filter")
			q := r.u8()
			p.Filters = append(p.Filters, f)
			p.QoSs = append(p.QoSs, q)
			if f == "" {
				p.bad("SUBSCRIBE with empty topic filter")
			} else if !ValidFilter(f) {
				p.bad("SUBSCRIBE with malformed topic filter %q", f)
			}
			if q > 2 {
				p.bad("SUBSCRIBE requested QoS %d", q)
			}
		}
		if len(p.Filters) == 0 {
			p.bad("SUBSCRIBE without topic filter")
		}
	case SUBACK:
		wantFlags(0)
		p.ID = r.u16()
		p.RCs = r.b
		r.b = nil
	case UNSUBSCRIBE:
		wantFlags(2)
		p.ID = r.u16()
		if p.ID == 0 {
			p.bad("UNSUBSCRIBE with packet id 0")
		}
		for len(r.b) > 0 && !r.err {
			f := p.str(r, "topic filter")
			p.Filters = append(p.Filters, f)
			if f == "" {
				p.bad("UNSUBSCRIBE with empty topic filter")
			} else if !ValidFilter(f) {
				p.bad("UNSUBSCRIBE with malformed topic filter %q", f)
			}
		}
		if len(p.Filters) == 0 {
			p.bad("UNSUBSCRIBE without topic filter")
		}
	case PINGREQ, PINGRESP, DISCONNECT:
		wantFlags(0)
	default:
		p.bad("reserved packet type %d", p.Type)
	}
	if r.err {
		p.bad("remaining length %d too short for the packet's fields", rl)
	} else if len(r.b) != 0 {
		p.bad("%d trailing bytes inside the packet", len(r.b))
	}
	return p, i + rl, nil
}

// ValidFilter implements MQTT 3.1.1 section 4.7.1: '#' only as the last level
// and alone in its level, '+' alone in its level.
func ValidFilter(f string) bool {
	if f == "" {
		return false
	}
	levels := strings.Split(f, "/")
	for i, l := range levels {
		if strings.Contains(l, "#") && (l != "#" || i != len(levels)-1) {
			return false
		}
		if strings.Contains(l, "+") && l != "+" {
			return false
		}
	}
	return true
}

// ParseAll parses a byte stream into packets; rest is an incomplete tail.
func ParseAll(b []byte) (pkts []Pkt, rest []byte, err error) {
	for len(b) > 0 {
		p, n, e := Parse(b)
		if e == ErrIncomplete {
			return pkts, b, nil
		}
		if e != nil {
			return pkts, b, e
		}
		pkts = append(pkts, p)
		b = b[n:]
	}
	return pkts, nil, nil
}

// ---- encoders (broker side of the harness) ----

func remlen(n int) []byte {
	var o []byte
	for {
		d := byte(n % 128)
		n /= 128
		if n > 0 {
			d |= 128
		}
		o = append(o, d)
		if n == 0 {
			return o
		}
	}
}

func frame(first byte, body []byte) []byte {
	return append(append([]byte{first}, remlen(len(body))...), body...)
}

func be(v uint16) []byte  { return []byte{byte(v >> 8), byte(v)} }
func str(s string) []byte { return append(be(uint16(len(s))), s...) }

func EncConnack(rc byte) []byte    { return frame(CONNACK<<4, []byte{0, rc}) }
func EncPuback(id uint16) []byte   { return frame(PUBACK<<4, be(id)) }
func EncPubrec(id uint16) []byte   { return frame(PUBREC<<4, be(id)) }
func EncPubrel(id uint16) []byte   { return frame(PUBREL<<4|2, be(id)) }
func EncPubcomp(id uint16) []byte  { return frame(PUBCOMP<<4, be(id)) }
func EncUnsuback(id uint16) []byte { return frame(UNSUBACK<<4, be(id)) }
func EncPingresp() []byte          { return frame(PINGRESP<<4, nil) }
func EncPingreq() []byte           { return frame(PINGREQ<<4, nil) }
func EncDisconnect() []byte        { return frame(DISCONNECT<<4, nil) }
func EncSuback(id uint16, rcs ...byte) []byte {
	return frame(SUBACK<<4, append(be(id), rcs...))
}
func EncPublish(topic string, qos byte, dup, retain bool, id uint16, payload []byte) []byte {
	f := byte(PUBLISH<<4) | qos<<1
	if dup {
		f |= 8
	}
	if retain {
		f |= 1
	}
	body := str(topic)
	if qos > 0 {
		body = append(body, be(id)...)
	}
	return frame(f, append(body, payload...))
}
func EncSubscribe(id uint16, filter string, qos byte) []byte {
	return frame(SUBSCRIBE<<4|2, append(append(be(id), str(filter)...), qos))
}
func EncConnect(clientID string, ka uint16) []byte {
	body := append(str("MQTT"), 4, 2)
	body = append(body, be(ka)...)
	return frame(CONNECT<<4, append(body, str(clientID)...))
}
