// Package snmap maps bisquitt's decoded packet structs to the reference
// representation refsn.Pkt (field by field), so that oracles can compare them.
package snmap

import (
	"fmt"

	pkts "github.com/energomonitor/bisquitt/packets"
	p1 "github.com/energomonitor/bisquitt/packets1"

	"verif/mc/ref/refsn"
)

// FromReal converts a bisquitt packet; only the fields the message type
// defines are set (flag bits the type ignores stay false).
func FromReal(p pkts.Packet) (refsn.Pkt, error) {
	var o refsn.Pkt
	switch x := p.(type) {
	case *p1.Advertise:
		o.Type, o.GwID, o.Duration = refsn.ADVERTISE, x.GatewayID, x.Duration
	case *p1.SearchGw:
		o.Type, o.Radius = refsn.SEARCHGW, x.Radius
	case *p1.GwInfo:
		o.Type, o.GwID, o.Data = refsn.GWINFO, x.GatewayID, x.GatewayAddress
	case *p1.Auth:
		o.Type, o.Reason, o.Str, o.Data = refsn.AUTH, x.Reason, x.Method, x.Data
	case *p1.Connect:
		o.Type, o.HasFlags, o.Will, o.Clean, o.ProtoID, o.Duration, o.Data = refsn.CONNECT, true, x.Will, x.CleanSession, x.ProtocolID, x.Duration, x.ClientID
	case *p1.Connack:
		o.Type, o.RC = refsn.CONNACK, byte(x.ReturnCode)
	case *p1.WillTopicReq:
		o.Type = refsn.WILLTOPICREQ
	case *p1.WillTopic:
		o.Type, o.Str = refsn.WILLTOPIC, x.WillTopic
		if x.WillTopic != "" {
			o.HasFlags, o.QoS, o.Retain = true, x.QOS, x.Retain
		}
	case *p1.WillMsgReq:
		o.Type = refsn.WILLMSGREQ
	case *p1.WillMsg:
		o.Type, o.Data = refsn.WILLMSG, x.WillMsg
	case *p1.Register:
		o.Type, o.TopicID, o.MsgID, o.Str = refsn.REGISTER, x.TopicID, x.MessageID(), x.TopicName
	case *p1.Regack:
		o.Type, o.TopicID, o.MsgID, o.RC = refsn.REGACK, x.TopicID, x.MessageID(), byte(x.ReturnCode)
	case *p1.Publish:
		o.Type, o.HasFlags, o.DUP, o.QoS, o.Retain, o.TIT, o.TopicID, o.MsgID, o.Data = refsn.PUBLISH, true, x.DUP(), x.QOS, x.Retain, x.TopicIDType, x.TopicID, x.MessageID(), x.Data
	case *p1.Puback:
		o.Type, o.TopicID, o.MsgID, o.RC = refsn.PUBACK, x.TopicID, x.MessageID(), byte(x.ReturnCode)
	case *p1.Pubcomp:
		o.Type, o.MsgID = refsn.PUBCOMP, x.MessageID()
	case *p1.Pubrec:
		o.Type, o.MsgID = refsn.PUBREC, x.MessageID()
	case *p1.Pubrel:
		o.Type, o.MsgID = refsn.PUBREL, x.MessageID()
	case *p1.Subscribe:
		o.Type, o.HasFlags, o.DUP, o.QoS, o.TIT, o.MsgID, o.TopicID, o.Str = refsn.SUBSCRIBE, true, x.DUP(), x.QOS, x.TopicIDType, x.MessageID(), x.TopicID, x.TopicName
	case *p1.Suback:
		o.Type, o.HasFlags, o.QoS, o.TopicID, o.MsgID, o.RC = refsn.SUBACK, true, x.QOS, x.TopicID, x.MessageID(), byte(x.ReturnCode)
	case *p1.Unsubscribe:
		o.Type, o.HasFlags, o.TIT, o.MsgID, o.TopicID, o.Str = refsn.UNSUBSCRIBE, true, x.TopicIDType, x.MessageID(), x.TopicID, x.TopicName
	case *p1.Unsuback:
		o.Type, o.MsgID = refsn.UNSUBACK, x.MessageID()
	case *p1.Pingreq:
		o.Type, o.Data = refsn.PINGREQ, x.ClientID
	case *p1.Pingresp:
		o.Type = refsn.PINGRESP
	case *p1.Disconnect:
		o.Type, o.Duration = refsn.DISCONNECT, x.Duration
	case *p1.WillTopicUpd:
		o.Type, o.Str = refsn.WILLTOPICUPD, x.WillTopic
		if x.WillTopic != "" {
			o.HasFlags, o.QoS, o.Retain = true, x.QOS, x.Retain
		}
	case *p1.WillTopicResp:
		o.Type, o.RC = refsn.WILLTOPICRESP, byte(x.ReturnCode)
	case *p1.WillMsgUpd:
		o.Type, o.Data = refsn.WILLMSGUPD, x.WillMsg
	case *p1.WillMsgResp:
		o.Type, o.RC = refsn.WILLMSGRESP, byte(x.ReturnCode)
	default:
		return o, fmt.Errorf("snmap: unknown packet type %T", p)
	}
	return o, nil
}

// Norm masks what a message type does not define, so that a reference decoding
// (which keeps every flag bit) can be compared with FromReal's result.
func Norm(p refsn.Pkt) refsn.Pkt {
	o := p
	o.HdrLen, o.Length, o.Size, o.HasDur = 0, 0, 0, false
	keep := func(dup, qos, ret, will, clean, tit bool) {
		if !dup {
			o.DUP = false
		}
		if !qos {
			o.QoS = 0
		}
		if !ret {
			o.Retain = false
		}
		if !will {
			o.Will = false
		}
		if !clean {
			o.Clean = false
		}
		if !tit {
			o.TIT = 0
		}
	}
	switch p.Type {
	case refsn.PUBLISH:
		keep(true, true, true, false, false, true)
	case refsn.SUBSCRIBE:
		keep(true, true, false, false, false, true)
	case refsn.UNSUBSCRIBE:
		keep(false, false, false, false, false, true)
	case refsn.SUBACK:
		keep(false, true, false, false, false, false)
	case refsn.CONNECT:
		keep(false, false, false, true, true, false)
	case refsn.WILLTOPIC, refsn.WILLTOPICUPD:
		keep(false, true, true, false, false, false)
	default:
		keep(false, false, false, false, false, false)
	}
	if len(o.Data) == 0 {
		o.Data = nil
	}
	return o
}

// Equal compares two normalised packets field by field (nil and empty slices identified).
func Equal(a, b refsn.Pkt) bool {
	a, b = Norm(a), Norm(b)
	if string(a.Data) != string(b.Data) {
		return false
	}
	a.Data, b.Data = nil, nil
	return fmt.Sprintf("%+v", a) == fmt.Sprintf("%+v", b)
}
