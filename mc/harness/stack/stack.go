// Package stack closes the whole system inside a vsched bubble: one real client
// library instance <-> in-memory MQTT-SN link (with optional loss/duplication
// filters) <-> one real gateway session handler <-> the broker model.
package stack

import (
	"context"
	"fmt"
	"net"
	"sort"
	"sync"
	"time"

	"github.com/energomonitor/bisquitt/client"
	"github.com/energomonitor/bisquitt/gateway"
	pkts1 "github.com/energomonitor/bisquitt/packets1"
	"github.com/energomonitor/bisquitt/topics"

	"verif/mc/harness/cl"
	"verif/mc/ref/broker"
	"verif/mc/ref/refmqtt"
	"verif/mc/ref/refsn"
	"verif/mc/vnet"
	"verif/mc/vsched"
)

type Config struct {
	ClientID         string
	KeepAlive        time.Duration
	ConnectTimeout   time.Duration
	RetryDelay       time.Duration
	RetryCount       uint
	Predefined       topics.PredefinedTopics // shared by client and gateway
	GwPredefined     topics.PredefinedTopics // if non-nil: the gateway's own (otherwise Predefined)
	Will             bool
	EnforceKeepAlive bool // the broker drops a connection silent for 1.5 x keep-alive
}

func DefaultConfig() Config {
	return Config{ClientID: "c1", ConnectTimeout: 2 * time.Second, RetryDelay: time.Second, RetryCount: 2, Predefined: topics.PredefinedTopics{}}
}

type Dgram struct {
	At time.Duration
	P  refsn.Pkt
}

type Stack struct {
	S      *vsched.Sched
	Cfg    Config
	C      *client.Client
	H      *gateway.VHandler
	B      *broker.Model
	clConn *vnet.Conn // client's end
	gwConn *vnet.Conn // gateway's end
	mq     *vnet.Conn // gateway's end of the broker connection
	cancel context.CancelFunc
	mu     sync.Mutex
	Calls  []*cl.Call
	Deliv  []cl.Delivery
	GwRet  bool
	clSeen int
	gwSeen int
	// broker keep-alive enforcement
	BrokerDroppedAt time.Duration
	watchdog        *vsched.Timer
}

func New(s *vsched.Sched, cfg Config) *Stack {
	st := &Stack{S: s, Cfg: cfg, B: broker.New()}
	a, b := vnet.Pair("sn", false)
	st.clConn, st.gwConn = a, b
	cc := &client.ClientConfig{
		ClientID: cfg.ClientID, CleanSession: true,
		KeepAlive: cfg.KeepAlive, ConnectTimeout: cfg.ConnectTimeout, RetryDelay: cfg.RetryDelay, RetryCount: cfg.RetryCount,
		PredefinedTopics: cfg.Predefined,
	}
	if cfg.Will {
		cc.WillTopic, cc.WillPayload, cc.WillQOS = "will/t", []byte("bye"), 1
	}
	st.C = client.VNewClient(cc, a)
	gwPre := cfg.Predefined
	if cfg.GwPredefined != nil {
		gwPre = cfg.GwPredefined
	}
	sh := gateway.VNewShared(gateway.VConfig{RetryDelay: cfg.RetryDelay, RetryCount: cfg.RetryCount})
	st.H = gateway.VNewHandler(sh, gwPre, func() net.Conn {
		m, _ := vnet.Pair("mq", true)
		st.mq = m
		m.Responder = func(w []byte) [][]byte {
			pk, _, err := refmqtt.ParseAll(w)
			if err != nil {
				st.B.Errors = append(st.B.Errors, "unparseable bytes from the gateway: "+err.Error())
				return nil
			}
			var r [][]byte
			for _, p := range pk {
				r = append(r, st.B.Handle(p)...)
				if st.Cfg.EnforceKeepAlive && st.B.KeepAlive > 0 && st.B.Connected {
					st.arm(time.Duration(st.B.KeepAlive) * time.Second * 3 / 2)
				}
			}
			return r
		}
		return m
	})
	ctx, cancel := context.WithCancel(context.Background())
	st.cancel = cancel
	vsched.Go(func() {
		st.H.VRun(ctx, b)
		st.GwRet = true
		b.Close()
	})
	s.Run()
	return st
}

func (st *Stack) arm(d time.Duration) {
	if st.watchdog != nil {
		st.watchdog.Stop()
	}
	st.watchdog = st.S.AddTimer(d, nil, func() {
		st.BrokerDroppedAt = st.Now()
		st.B.Connected = false
		st.mq.InjectEOF()
	}, false)
}

func (st *Stack) Now() time.Duration { return st.S.Now().Sub(vsched.Epoch) }

func (st *Stack) Dial() error {
	err := st.C.Dial("ignored")
	st.S.Run()
	return err
}

// Go starts an API call in its own thread and runs to quiescence.
func (st *Stack) Go(name string, f func() error) *cl.Call {
	call := &cl.Call{Name: name, Started: st.Now()}
	st.Calls = append(st.Calls, call)
	vsched.Go(func() {
		err := f()
		call.Returned = true
		call.RetAt = st.Now()
		if err != nil {
			call.Err = err.Error()
		}
	})
	st.S.Run()
	return call
}

func (st *Stack) Handler(sub string) client.MessageHandlerFunc {
	return func(_ *client.Client, topic string, pkt *pkts1.Publish) {
		payload := ""
		if pkt != nil {
			payload = string(pkt.Data)
		}
		st.mu.Lock()
		st.Deliv = append(st.Deliv, cl.Delivery{Sub: sub, Topic: topic, Payload: payload, At: st.Now()})
		st.mu.Unlock()
	}
}

// BrokerPublish: an external publisher publishes; the broker routes to the client if subscribed.
func (st *Stack) BrokerPublish(topic, payload string, qos byte) bool {
	if st.mq == nil {
		return false
	}
	pk := st.B.Publish(topic, payload, qos)
	for _, b := range pk {
		st.mq.Inject(b)
	}
	st.S.Run()
	return len(pk) > 0
}

// InjectBrokerPublish queues the routed PUBLISH without running.
func (st *Stack) InjectBrokerPublish(topic, payload string, qos byte) {
	if st.mq == nil {
		return
	}
	for _, b := range st.B.Publish(topic, payload, qos) {
		st.mq.Inject(b)
	}
}

// FilterToClient / FilterToGateway install link-fault filters (nil: lossless).
func (st *Stack) FilterToClient(f func(p refsn.Pkt, raw []byte) [][]byte) { st.gwConn.SetFilter(wrap(f)) }
func (st *Stack) FilterToGateway(f func(p refsn.Pkt, raw []byte) [][]byte) {
	st.clConn.SetFilter(wrap(f))
}

func wrap(f func(p refsn.Pkt, raw []byte) [][]byte) func(b []byte) [][]byte {
	if f == nil {
		return nil
	}
	return func(b []byte) [][]byte {
		p, err := refsn.Decode(b)
		if err != nil {
			return [][]byte{b}
		}
		return f(p, b)
	}
}

func take(c *vnet.Conn, seen *int) []Dgram {
	recs := c.Sent()
	var out []Dgram
	for _, r := range recs[*seen:] {
		p, err := refsn.Decode(r.Data)
		if err != nil {
			p = refsn.Pkt{Type: 0xFF}
		}
		out = append(out, Dgram{r.At, p})
	}
	*seen = len(recs)
	return out
}

// TakeClient / TakeGateway: datagrams written by the client / the gateway since the last call
// (as written, before the link filter).
func (st *Stack) TakeClient() []Dgram  { return take(st.clConn, &st.clSeen) }
func (st *Stack) TakeGateway() []Dgram { return take(st.gwConn, &st.gwSeen) }

func (st *Stack) Snapshot() string {
	var del []string
	for _, d := range st.Deliv {
		del = append(del, d.Sub+"<-"+d.Topic+"="+d.Payload)
	}
	sort.Strings(del)
	var calls []string
	for _, k := range st.Calls {
		calls = append(calls, fmt.Sprintf("%s:%t:%s", k.Name, k.Returned, k.Err))
	}
	return fmt.Sprintf("CL[%s] GW[%s ret=%t] BR[%s] timers=%v deliv=%v calls=%v", st.C.VSnapshot(), st.H.VSnapshot(), st.GwRet, st.B.Snapshot(), st.S.PendingTimers(), del, calls)
}

// Finish shuts everything down so that the bubble can be torn down.
func (st *Stack) Finish() int {
	st.clConn.SetFilter(nil)
	st.gwConn.SetFilter(nil)
	vsched.Go(func() { st.C.Close() })
	st.S.Run()
	st.cancel()
	st.S.Run()
	for i := 0; i < 80 && st.S.Live() > 0; i++ {
		st.S.Advance(500 * time.Millisecond)
	}
	return st.S.Live()
}
