package gw

import (
	"strings"
	"testing"
	"time"

	"verif/mc/explore"
	"verif/mc/vsched"
)

// Monitor is a property's oracle: fed with everything observable after each
// event, it keeps the abstract state the invariant needs.
type Monitor interface {
	// After is called after every event with the new outputs; it returns the
	// violations this event caused.
	After(g *GW, ev string, sn []SNOut, mq []MQOut, setup bool) []explore.Violation
	// Key is the monitor's part of the canonical state key.
	Key() string
	// Next lists the events enabled in the current state (nil: terminal).
	Next(g *GW) []string
	Class() string
}

type Spec struct {
	Name       string
	Cfg        Config
	Setup      []string
	NewMonitor func() Monitor
	// NoSettle: do not let a session that is shutting down run to its end
	// (connection polls) after each event; timed checks measure that themselves.
	NoSettle bool
	// Depth, if not zero, replaces the depth bound of the check for this spec.
	Depth int
	// Livelock: a session that keeps running without letting (virtual) time pass - a zero-delay loop - is a
	// violation of this spec's property (termination and robustness properties) instead of a harness error.
	Livelock bool
}

// StepLimit is the scheduler's message for an execution that never quiesces.
const StepLimit = "step limit exceeded (livelock?)"

// RunHistory replays setup + hist on a fresh handler under the default schedule.
func RunHistory(t *testing.T, sp Spec, hist []string) explore.StateResult {
	var out explore.StateResult
	res, leakedBubble := explore.Bubble(t, nil, func(s *vsched.Sched) (string, []explore.Violation) {
		g := New(s, sp.Cfg)
		m := sp.NewMonitor()
		apply := func(ev string, setup, last bool) bool {
			if err := g.Apply(ev); err != nil {
				out.HarnessErr = err.Error()
				return false
			}
			if !sp.NoSettle && g.H.VEnding() && !g.Returned {
				g.S.Advance(300 * time.Millisecond)
			}
			sn, mq := g.TakeSN(), g.TakeMQ()
			vs := m.After(g, ev, sn, mq, setup)
			if len(s.Panics) > 0 {
				vs = append(vs, explore.Violation{Sig: "panic", Detail: s.Panics[0]})
			}
			if last {
				out.Violations = vs
			}
			return len(s.Panics) == 0
		}
		ok := true
		for _, ev := range sp.Setup {
			if ok = apply(ev, true, false); !ok {
				break
			}
		}
		for i, ev := range hist {
			if !ok {
				break
			}
			ok = apply(ev, false, i == len(hist)-1)
		}
		if ok {
			out.Key = g.Snapshot() + " || " + m.Key()
			out.Class = m.Class()
			out.Next = m.Next(g)
		} else {
			out.Key = "aborted:" + strings.Join(hist, ",")
			out.Class = "aborted"
		}
		g.Finish()
		return "", nil
	})
	if res.HarnessErr != "" && out.HarnessErr == "" {
		out.HarnessErr = res.HarnessErr
	}
	if sp.Livelock && out.HarnessErr == StepLimit {
		out.HarnessErr = ""
		out.Violations = []explore.Violation{{Sig: "livelock:session-spins-without-letting-time-pass", Detail: "after the last event the session's goroutines kept running (more than the step limit of scheduling steps) at one instant of virtual time: a zero-delay loop"}}
		out.Key, out.Class, out.Next = "livelock:"+strings.Join(hist, ","), "livelock", nil
	}
	_ = leakedBubble
	for i := range out.Violations {
		v := &out.Violations[i]
		v.Scenario = sp.Name
		v.History = labels(append(append([]string{}, sp.Setup...), hist...))
	}
	return out
}

func labels(evs []string) []string {
	out := make([]string, len(evs))
	for i, e := range evs {
		out[i] = Label(e)
	}
	return out
}

// BFSCheck runs the explicit-state search for a list of specs through the
// worker pool and fills the report.  depth<=0: run to a fixpoint.
type BFSOpts struct {
	Test      string
	Depth     int
	MaxStates int
}

func ServeBFS(t *testing.T, specs []Spec) {
	by := map[string]Spec{}
	for _, sp := range specs {
		by[sp.Name] = sp
	}
	explore.Serve(func(name string, payload []byte) any {
		sp := by[name]
		return explore.ServeBFS(payload, func(h []string) explore.StateResult { return RunHistory(t, sp, h) })
	})
}

func BFSCheck(rep *explore.Report, specs []Spec, o BFSOpts, deadlineQuick, deadlineThorough int) {
	pool := explore.NewPool(o.Test, explore.Workers())
	defer pool.Close()
	states, trans, validated, depth := 0, 0, 0, 0
	complete, fix := true, true
	classes := map[string]int{}
	var samples []any
	for _, sp := range specs {
		d := o.Depth
		if sp.Depth != 0 {
			d = sp.Depth
		}
		st, viols := explore.BFSBatch(explore.BFSConfig{MaxDepth: d, MaxStates: o.MaxStates, Workers: pool.N, ValidateEvery: 8,
			Deadline: rep.Budget(secs(deadlineQuick), secs(deadlineThorough))}, pool.BFSRunner(sp.Name))
		if st.HarnessErr != "" {
			rep.HarnessErr = sp.Name + ": " + st.HarnessErr
			return
		}
		for i := range viols {
			if viols[i].Property == "" {
				viols[i].Property = rep.Property
			}
		}
		rep.Add(viols...)
		states += st.States
		trans += st.Transitions
		validated += st.Validated
		if st.Depth > depth {
			depth = st.Depth
		}
		complete = complete && st.Complete
		fix = fix && st.Fixpoint
		for k, v := range st.Classes {
			classes[k] += v
		}
		for _, h := range st.Samples {
			if len(samples) < 6 {
				samples = append(samples, map[string]any{"spec": sp.Name, "history": labels(h)})
			}
		}
	}
	rep.Coverage["states"] = states
	rep.Coverage["transitions"] = trans
	rep.Coverage["traces_validated_against_impl"] = validated
	rep.Coverage["max_depth"] = depth
	rep.Coverage["depth_bound"] = o.Depth
	rep.Coverage["exhaustive"] = complete
	rep.Coverage["fixpoint"] = fix
	rep.Coverage["state_classes"] = classes
	rep.Coverage["samples"] = samples
	rep.Coverage["specs"] = len(specs)
}

func secs(n int) time.Duration { return time.Duration(n) * time.Second }
