// Package gw closes one real gateway session (handler1) between a scripted
// MQTT-SN client side and a scripted broker side, inside a vsched bubble.
package gw

import (
	"context"
	"encoding/hex"
	"fmt"
	"net"
	"strings"
	"time"

	"github.com/energomonitor/bisquitt/gateway"
	"github.com/energomonitor/bisquitt/topics"

	"verif/mc/ref/refmqtt"
	"verif/mc/ref/refsn"
	"verif/mc/vnet"
	"verif/mc/vsched"
)

type Config struct {
	Auth       bool
	User       *string
	Password   []byte
	RetryDelay time.Duration
	RetryCount uint
	Predefined topics.PredefinedTopics
	// TopicIDRange, if non-zero, replaces the topic id sequence (C04 small range).
	TopicIDMin, TopicIDMax uint16
	// AutoBroker, if set, answers what the gateway writes to the broker at once.
	AutoBroker func(p refmqtt.Pkt) [][]byte
	// EnforceKeepAlive makes the broker side behave like a broker that
	// enforces MQTT keep-alive: it closes a connection on which no CONNECT
	// arrives within NoConnectTimeout, and one that is silent for 1.5 x the
	// CONNECT's keep-alive.
	EnforceKeepAlive bool
	NoConnectTimeout time.Duration
}

func DefaultConfig() Config {
	return Config{RetryDelay: 10 * time.Second, RetryCount: 4, Predefined: topics.PredefinedTopics{}}
}

// SNOut is one datagram the gateway sent to the client.
type SNOut struct {
	At  time.Duration
	Raw []byte
	P   refsn.Pkt
	Err error // reference decoder's verdict
}

func (o SNOut) String() string {
	if o.Err != nil {
		return fmt.Sprintf("UNDECODABLE(%x: %v)", o.Raw, o.Err)
	}
	return o.P.String()
}

// MQOut is one MQTT packet the gateway wrote to the broker.
type MQOut struct {
	At time.Duration
	P  refmqtt.Pkt
}

type GW struct {
	S               *vsched.Sched
	H               *gateway.VHandler
	Cfg             Config
	snGW            *vnet.Conn // handler's end of the MQTT-SN link
	mqGW            *vnet.Conn // handler's end of the broker connection
	Cancel          context.CancelFunc
	Dialed          int
	Returned        bool
	RetAt           time.Duration
	snSeen          int
	mqSeen          int
	mqBuf           []byte
	mqAt            time.Duration
	MQErr           string // broker-bound byte stream not parseable
	AllSN           []SNOut
	AllMQ           []MQOut
	BrokerDroppedAt time.Duration // when the keep-alive enforcing broker closed the connection (0: never)
}

// New builds the handler the way ListenAndServe does and starts run() in a thread.
func New(s *vsched.Sched, cfg Config) *GW {
	g := &GW{S: s, Cfg: cfg}
	snA, snB := vnet.Pair("sn", false)
	g.snGW = snA
	_ = snB
	sh := gateway.VNewShared(gateway.VConfig{User: cfg.User, Password: freshPassword(cfg.Password), AuthEnabled: cfg.Auth, RetryDelay: cfg.RetryDelay, RetryCount: cfg.RetryCount})
	g.StartWith(sh, cfg.Predefined)
	return g
}

// StartWith starts a handler sharing sh and predefined with other sessions (C15).
func (g *GW) StartWith(sh *gateway.VShared, predefined topics.PredefinedTopics) {
	if g.snGW == nil {
		g.snGW, _ = vnet.Pair("sn", false)
	}
	g.H = gateway.VNewHandler(sh, predefined, func() net.Conn {
		g.Dialed++
		a, _ := vnet.Pair(fmt.Sprintf("mq%d", g.Dialed), true)
		g.mqGW = a
		if g.Cfg.AutoBroker != nil || g.Cfg.EnforceKeepAlive {
			var watchdog *vsched.Timer
			var ka time.Duration
			arm := func(d time.Duration) {
				if watchdog != nil {
					watchdog.Stop()
				}
				watchdog = g.S.AddTimer(d, nil, func() { g.BrokerDroppedAt = g.S.Now().Sub(vsched.Epoch); a.InjectEOF() }, false)
			}
			if g.Cfg.EnforceKeepAlive {
				arm(g.Cfg.NoConnectTimeout)
			}
			a.Responder = func(b []byte) [][]byte {
				p, _, err := refmqtt.Parse(b)
				if err != nil {
					return nil
				}
				if g.Cfg.EnforceKeepAlive {
					if p.Type == refmqtt.CONNECT {
						ka = time.Duration(p.KeepAlive) * time.Second
						if ka == 0 && watchdog != nil {
							watchdog.Stop() // keep-alive 0: the broker never times this client out
						}
					}
					if ka > 0 {
						arm(ka * 3 / 2)
					}
				}
				if g.Cfg.AutoBroker != nil {
					return g.Cfg.AutoBroker(p)
				}
				return nil
			}
		}
		return a
	})
	if g.Cfg.TopicIDMax != 0 {
		g.H.VSetTopicIDRange(g.Cfg.TopicIDMin, g.Cfg.TopicIDMax)
	}
	ctx, cancel := context.WithCancel(context.Background())
	g.Cancel = cancel
	vsched.Go(func() {
		// as in ListenAndServe: the gateway closes the MQTT-SN conn after run returns
		g.H.VRun(ctx, g.snGW)
		g.Returned = true
		g.RetAt = g.S.Now().Sub(vsched.Epoch)
		g.snGW.Close()
	})
	g.S.Run()
}

// NewPair builds two sessions sharing one configuration and one predefined map (C15).
func NewPair(s *vsched.Sched, cfg Config) (*GW, *GW) {
	sh := gateway.VNewShared(gateway.VConfig{User: cfg.User, Password: freshPassword(cfg.Password), AuthEnabled: cfg.Auth, RetryDelay: cfg.RetryDelay, RetryCount: cfg.RetryCount})
	a := &GW{S: s, Cfg: cfg}
	b := &GW{S: s, Cfg: cfg}
	a.snGW, _ = vnet.Pair("snA", false)
	b.snGW, _ = vnet.Pair("snB", false)
	a.StartWith(sh, cfg.Predefined)
	b.StartWith(sh, cfg.Predefined)
	return a, b
}

// Client delivers one datagram from the client and runs to quiescence.
func (g *GW) Client(b []byte) { g.snGW.Inject(b); g.S.Run() }

// Broker delivers bytes from the broker and runs to quiescence.
func (g *GW) Broker(b []byte) {
	if g.mqGW != nil {
		g.mqGW.Inject(b)
	}
	g.S.Run()
}

// BrokerClose: the broker closes the connection.
func (g *GW) BrokerClose() {
	if g.mqGW != nil {
		g.mqGW.InjectEOF()
	}
	g.S.Run()
}

func (g *GW) Shutdown() { g.Cancel(); g.S.Run() }

// ClientUnreachable: from now on every send to the client fails at once (reads from it still work).
func (g *GW) ClientUnreachable() {
	g.snGW.WriteErr = errUnreachable{}
	g.S.Run()
}

type errUnreachable struct{}

func (errUnreachable) Error() string   { return "vnet: network is unreachable" }
func (errUnreachable) Timeout() bool   { return false }
func (errUnreachable) Temporary() bool { return false }

// StallBroker: the broker stops (or resumes) reading; with the buffers full the gateway's writes to it block.
func (g *GW) StallBroker(on bool) {
	if g.mqGW != nil {
		g.mqGW.SetWriteStall(on)
	}
	g.S.Run()
}

// InjectClient / InjectBroker queue input without running (E2 scenarios).
func (g *GW) InjectClient(b []byte) { g.snGW.Inject(b) }
func (g *GW) InjectBroker(b []byte) {
	if g.mqGW != nil {
		g.mqGW.Inject(b)
	}
}

func (g *GW) BrokerConnClosed() bool { return g.mqGW != nil && g.mqGW.IsClosed() }
func (g *GW) BrokerConnClosedAt() time.Duration {
	if g.mqGW == nil {
		return 0
	}
	return g.mqGW.ClosedAt
}
func (g *GW) PendingInput() int {
	n := g.snGW.PendingRx()
	if g.mqGW != nil {
		n += g.mqGW.PendingRx()
	}
	return n
}

// TakeSN returns the datagrams sent to the client since the last call.
func (g *GW) TakeSN() []SNOut {
	recs := g.snGW.Sent()
	var out []SNOut
	for _, r := range recs[g.snSeen:] {
		p, err := refsn.Decode(r.Data)
		out = append(out, SNOut{At: r.At, Raw: r.Data, P: p, Err: err})
	}
	g.snSeen = len(recs)
	g.AllSN = append(g.AllSN, out...)
	return out
}

// TakeMQ returns the MQTT packets written to the broker since the last call.
func (g *GW) TakeMQ() []MQOut {
	if g.mqGW == nil {
		return nil
	}
	recs := g.mqGW.Sent()
	var out []MQOut
	for _, r := range recs[g.mqSeen:] {
		g.mqBuf = append(g.mqBuf, r.Data...)
		g.mqAt = r.At
		pk, rest, err := refmqtt.ParseAll(g.mqBuf)
		if err != nil {
			g.MQErr = err.Error()
			rest = nil
		}
		g.mqBuf = append([]byte(nil), rest...)
		for _, p := range pk {
			out = append(out, MQOut{At: r.At, P: p})
		}
	}
	g.mqSeen = len(recs)
	g.AllMQ = append(g.AllMQ, out...)
	return out
}

// Snapshot: handler's private state + pending timers + unread input.
func (g *GW) Snapshot() string {
	return fmt.Sprintf("%s | timers=%v | ret=%t | in=%d | mqclosed=%t", g.H.VSnapshot(), g.S.PendingTimers(), g.Returned, g.PendingInput(), g.BrokerConnClosed())
}

// Finish ends the session cleanly (so that the bubble can be torn down) and
// reports goroutines that did not exit.
func (g *GW) Finish() (leaked int) {
	g.Cancel()
	g.S.Run()
	for i := 0; i < 50 && !g.Returned; i++ {
		g.S.Advance(100 * time.Millisecond)
	}
	return g.S.Live()
}

// ---- events as strings: "<label>|<kind>:<hex>" ----

func EvC(label string, raw []byte) string { return label + "|C:" + hex.EncodeToString(raw) }
func EvB(label string, raw []byte) string { return label + "|B:" + hex.EncodeToString(raw) }

const (
	EvShutdown    = "shutdown|X:shutdown"
	EvBrokerClose = "broker-closes|X:bclose"
	EvTimer       = "next-timer|T:next"
	EvStall       = "broker-stops-reading|X:stall"
	EvUnstall     = "broker-reads-again|X:unstall"
	EvUnreachable = "client-becomes-unreachable|X:snfail"
	// EvClientEOF: the client's transport connection ends (DTLS close_notify, a closed socket pair): reads return EOF
	EvClientEOF = "client-connection-closed|X:sneof"
)

func EvAdvance(d time.Duration) string { return fmt.Sprintf("advance %v|T:%d", d, int64(d)) }

// Apply executes one event.  An event body may chain several steps with '+'
// (e.g. a SUBSCRIBE and the broker's SUBACK as one atomic environment step).
func (g *GW) Apply(ev string) error {
	i := strings.LastIndex(ev, "|")
	if i < 0 {
		return fmt.Errorf("bad event %q", ev)
	}
	for _, body := range strings.Split(ev[i+1:], "+") {
		if err := g.applyOne(body); err != nil {
			return fmt.Errorf("bad event %q: %v", ev, err)
		}
	}
	return nil
}

// Ev chains several events into one composite event.
func Ev(label string, parts ...string) string {
	var bodies []string
	for _, p := range parts {
		bodies = append(bodies, p[strings.LastIndex(p, "|")+1:])
	}
	return label + "|" + strings.Join(bodies, "+")
}

func (g *GW) applyOne(body string) error {
	switch {
	case strings.HasPrefix(body, "C:"):
		b, err := hex.DecodeString(body[2:])
		if err != nil {
			return err
		}
		g.Client(b)
	case strings.HasPrefix(body, "B:"):
		b, err := hex.DecodeString(body[2:])
		if err != nil {
			return err
		}
		g.Broker(b)
	case body == "X:shutdown":
		g.Shutdown()
	case body == "X:bclose":
		g.BrokerClose()
	case body == "X:stall":
		g.StallBroker(true)
	case body == "X:unstall":
		g.StallBroker(false)
	case body == "X:snfail":
		g.ClientUnreachable()
	case body == "X:sneof":
		g.snGW.InjectEOF()
		g.S.Run()
	case body == "T:next":
		g.S.FireNext()
	case strings.HasPrefix(body, "T:"):
		var d int64
		fmt.Sscan(body[2:], &d)
		g.S.Advance(time.Duration(d))
	default:
		return fmt.Errorf("unknown step %q", body)
	}
	return nil
}

func Label(ev string) string {
	if i := strings.LastIndex(ev, "|"); i >= 0 {
		return ev[:i]
	}
	return ev
}

// freshPassword: every run gets its own copy of the configured password, with spare capacity like a buffer read
// from a file: code that writes through the slice shows within the run and cannot leak into the next run.
func freshPassword(p []byte) []byte {
	if p == nil {
		return nil
	}
	return append(make([]byte, 0, len(p)+16), p...)
}
