package gw

import (
	"fmt"
	"strings"
	"testing"
	"time"

	"verif/mc/explore"
	"verif/mc/ref/refmqtt"
	"verif/mc/ref/refsn"
	"verif/mc/vsched"
)

// E2Spec is a schedule-exploration scenario on one gateway session: after a
// setup history (default schedule) some inputs are injected simultaneously,
// optionally against a broker that answers at once, and every interleaving of
// the handler's threads within the deviation bound is explored.
type E2Spec struct {
	Name  string
	Cfg   Config
	Setup []string
	// Auto is the reactive broker: its answers become readable the moment the
	// gateway has written the packet.
	Auto func(p refmqtt.Pkt) [][]byte
	// CloseOn: the broker closes the connection the moment it has read such a packet (after Auto's answers).
	CloseOn func(p refmqtt.Pkt) bool
	// AutoClient is the reactive client: its datagrams become readable the
	// moment the gateway has written the datagram they answer.
	AutoClient func(p refsn.Pkt, nth int) [][]byte
	// Inject: events whose inputs are queued together before anything runs.
	Inject []string
	// Then: events applied afterwards under the explored schedule, one by one.
	Then         []string
	TimerChoices bool
	Horizon      time.Duration
	// Check is the oracle at the end of the execution.
	Check func(g *GW, sn []SNOut, mq []MQOut) []explore.Violation
}

func RunE2(t *testing.T, sp E2Spec, prefix []int) explore.ExecResult {
	res, _ := explore.Bubble(t, prefix, func(s *vsched.Sched) (string, []explore.Violation) {
		s.NoChoice = true
		g := New(s, sp.Cfg)
		for _, ev := range sp.Setup {
			if err := g.Apply(ev); err != nil {
				s.HarnessEr = err.Error()
				return "", nil
			}
		}
		g.TakeSN()
		g.TakeMQ()
		if (sp.Auto != nil || sp.CloseOn != nil) && g.mqGW != nil {
			mq := g.mqGW
			mq.Responder = func(b []byte) [][]byte {
				p, _, err := refmqtt.Parse(b)
				if err != nil {
					return nil
				}
				var out [][]byte
				if sp.Auto != nil {
					out = sp.Auto(p)
				}
				if sp.CloseOn != nil && sp.CloseOn(p) {
					for _, r := range out {
						mq.Inject(r)
					}
					mq.InjectEOF()
					return nil
				}
				return out
			}
		}
		if sp.AutoClient != nil {
			nth := 0
			g.snGW.Responder = func(b []byte) [][]byte {
				p, err := refsn.Decode(b)
				if err != nil {
					return nil
				}
				nth++
				return sp.AutoClient(p, nth)
			}
		}
		s.NoChoice = false
		s.TimerChoices = sp.TimerChoices
		s.Horizon = s.Now().Add(sp.Horizon)
		for _, ev := range sp.Inject {
			i := strings.LastIndex(ev, "|")
			for _, body := range strings.Split(ev[i+1:], "+") {
				var raw []byte
				fmt.Sscanf(body[2:], "%x", &raw)
				switch body[:2] {
				case "C:":
					g.InjectClient(raw)
				case "B:":
					g.InjectBroker(raw)
				case "X:":
					if body == "X:shutdown" {
						g.Cancel()
					} else if body == "X:bclose" && g.mqGW != nil {
						g.mqGW.InjectEOF()
					}
				}
			}
		}
		s.Run()
		for _, ev := range sp.Then {
			if err := g.Apply(ev); err != nil {
				s.HarnessEr = err.Error()
				return "", nil
			}
		}
		sn, mq := g.TakeSN(), g.TakeMQ()
		var vs []explore.Violation
		if len(s.Panics) > 0 {
			vs = append(vs, explore.Violation{Sig: "panic", Detail: s.Panics[0]})
		} else {
			vs = sp.Check(g, sn, mq)
		}
		for i := range vs {
			vs[i].Scenario = sp.Name
			vs[i].History = labels(append(append(append([]string{}, sp.Setup...), sp.Inject...), sp.Then...))
		}
		var sb strings.Builder
		for _, o := range sn {
			sb.WriteString(o.String() + ";")
		}
		sb.WriteString(" || ")
		for _, o := range mq {
			sb.WriteString(o.P.String() + ";")
		}
		out := sb.String() + " || " + g.H.VSnapshot()
		s.TimerChoices = false
		s.NoChoice = true
		g.Finish()
		return out, vs
	})
	return res
}

// ServeAll is the worker-mode body for checks that combine BFS specs and E2 scenarios.
func ServeAll(t *testing.T, specs []Spec, e2 []E2Spec) {
	by := map[string]Spec{}
	for _, sp := range specs {
		by[sp.Name] = sp
	}
	sc := map[string]E2Spec{}
	for _, sp := range e2 {
		sc[sp.Name] = sp
	}
	explore.Serve(func(name string, payload []byte) any {
		if sp, ok := sc[name]; ok {
			return explore.ServeDFS(payload, func(p []int) explore.ExecResult { return explore.Slim(RunE2(t, sp, p)) })
		}
		sp := by[name]
		return explore.ServeBFS(payload, func(h []string) explore.StateResult { return RunHistory(t, sp, h) })
	})
}

// Scenarios wraps E2 specs for explore.RunScenarios.
func Scenarios(t *testing.T, e2 []E2Spec) []explore.Scenario {
	var out []explore.Scenario
	for _, sp := range e2 {
		sp := sp
		out = append(out, explore.Scenario{Name: sp.Name, Run: func(p []int) explore.ExecResult { return RunE2(t, sp, p) }})
	}
	return out
}
