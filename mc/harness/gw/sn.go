package gw

import (
	"verif/mc/ref/refsn"
)

// Datagram builders for the scripted client side (through the independent
// reference encoder, not bisquitt's).

func Connect(id string, dur uint16, will, clean bool) []byte {
	return refsn.Pkt{Type: refsn.CONNECT, Will: will, Clean: clean, ProtoID: 1, Duration: dur, Data: []byte(id)}.Encode()
}
func AuthPlain(user, pass string) []byte {
	return refsn.Pkt{Type: refsn.AUTH, Str: "PLAIN", Data: []byte("\x00" + user + "\x00" + pass)}.Encode()
}
func AuthRaw(method string, data []byte) []byte {
	return refsn.Pkt{Type: refsn.AUTH, Str: method, Data: data}.Encode()
}
func WillTopic(topic string, qos uint8, retain bool) []byte {
	return refsn.Pkt{Type: refsn.WILLTOPIC, Str: topic, QoS: qos, Retain: retain}.Encode()
}
func WillMsg(msg string) []byte { return refsn.Pkt{Type: refsn.WILLMSG, Data: []byte(msg)}.Encode() }
func Register(tid, mid uint16, name string) []byte {
	return refsn.Pkt{Type: refsn.REGISTER, TopicID: tid, MsgID: mid, Str: name}.Encode()
}
func Regack(tid, mid uint16, rc byte) []byte {
	return refsn.Pkt{Type: refsn.REGACK, TopicID: tid, MsgID: mid, RC: rc}.Encode()
}
func Publish(tit uint8, tid, mid uint16, qos uint8, dup, retain bool, data string) []byte {
	return refsn.Pkt{Type: refsn.PUBLISH, TIT: tit, TopicID: tid, MsgID: mid, QoS: qos, DUP: dup, Retain: retain, Data: []byte(data)}.Encode()
}
func Puback(tid, mid uint16, rc byte) []byte {
	return refsn.Pkt{Type: refsn.PUBACK, TopicID: tid, MsgID: mid, RC: rc}.Encode()
}
func Pubrec(mid uint16) []byte  { return refsn.Pkt{Type: refsn.PUBREC, MsgID: mid}.Encode() }
func Pubrel(mid uint16) []byte  { return refsn.Pkt{Type: refsn.PUBREL, MsgID: mid}.Encode() }
func Pubcomp(mid uint16) []byte { return refsn.Pkt{Type: refsn.PUBCOMP, MsgID: mid}.Encode() }
func SubscribeName(mid uint16, name string, qos uint8, dup bool) []byte {
	return refsn.Pkt{Type: refsn.SUBSCRIBE, TIT: 0, MsgID: mid, Str: name, QoS: qos, DUP: dup}.Encode()
}
func SubscribeID(mid uint16, tit uint8, tid uint16, qos uint8, dup bool) []byte {
	return refsn.Pkt{Type: refsn.SUBSCRIBE, TIT: tit, MsgID: mid, TopicID: tid, QoS: qos, DUP: dup}.Encode()
}
func UnsubscribeName(mid uint16, name string) []byte {
	return refsn.Pkt{Type: refsn.UNSUBSCRIBE, TIT: 0, MsgID: mid, Str: name}.Encode()
}
func UnsubscribeID(mid uint16, tit uint8, tid uint16) []byte {
	return refsn.Pkt{Type: refsn.UNSUBSCRIBE, TIT: tit, MsgID: mid, TopicID: tid}.Encode()
}
func Pingreq(id string) []byte { return refsn.Pkt{Type: refsn.PINGREQ, Data: []byte(id)}.Encode() }
func Pingresp() []byte         { return refsn.Pkt{Type: refsn.PINGRESP}.Encode() }
func Disconnect(dur uint16) []byte {
	return refsn.Pkt{Type: refsn.DISCONNECT, Duration: dur}.Encode()
}

// DisconnectField: DISCONNECT carrying the optional Duration field whatever its value (04 18 00 00 for 0).
func DisconnectField(dur uint16) []byte {
	return refsn.Pkt{Type: refsn.DISCONNECT, Duration: dur, HasDur: true}.Encode()
}

// ShortID encodes a 2-byte topic name as a short topic id.
func ShortID(name string) uint16 { return uint16(name[0])<<8 | uint16(name[1]) }

// OneOfEachType returns one well-formed datagram of every message type.
func OneOfEachType() map[string][]byte {
	m := map[string][]byte{}
	for _, t := range refsn.AllTypes {
		p := refsn.Pkt{Type: t, ProtoID: 1, Duration: 30, MsgID: 1, TopicID: 1}
		switch t {
		case refsn.CONNECT:
			p.Data = []byte("c1")
		case refsn.AUTH:
			p.Str, p.Data = "PLAIN", []byte("\x00u\x00p")
		case refsn.REGISTER, refsn.WILLTOPIC, refsn.WILLTOPICUPD:
			p.Str = "a/b"
		case refsn.SUBSCRIBE, refsn.UNSUBSCRIBE:
			p.Str = "a/b"
		case refsn.PUBLISH:
			p.Data = []byte("x")
		case refsn.GWINFO:
			p.Data = []byte{1}
		case refsn.DISCONNECT:
			p.Duration = 0
		}
		m[refsn.Names[t]] = p.Encode()
	}
	return m
}
