// Package cl closes one real client library instance against a scripted
// gateway side inside a vsched bubble.
package cl

import (
	"encoding/hex"
	"fmt"
	"sort"
	"strings"
	"sync"
	"time"

	"github.com/energomonitor/bisquitt/client"
	pkts1 "github.com/energomonitor/bisquitt/packets1"
	"github.com/energomonitor/bisquitt/topics"

	"verif/mc/ref/refsn"
	"verif/mc/vnet"
	"verif/mc/vsched"
)

type Config struct {
	ClientID       string
	User           string
	Password       []byte
	Will           bool
	KeepAlive      time.Duration
	ConnectTimeout time.Duration
	RetryDelay     time.Duration
	RetryCount     uint
	Predefined     topics.PredefinedTopics
}

func DefaultConfig() Config {
	return Config{ClientID: "c1", ConnectTimeout: 2 * time.Second, RetryDelay: time.Second, RetryCount: 2, Predefined: topics.PredefinedTopics{}}
}

// Out is one datagram the client sent.
type Out struct {
	At  time.Duration
	Raw []byte
	P   refsn.Pkt
	Err error
}

func (o Out) String() string {
	if o.Err != nil {
		return fmt.Sprintf("UNDECODABLE(%x)", o.Raw)
	}
	return o.P.String()
}

// Call is one API call made by a harness thread.
type Call struct {
	Name     string
	Started  time.Duration
	Returned bool
	RetAt    time.Duration
	RetSent  int // how many datagrams the client had written when the call returned
	Err      string // "" = nil
}

// Delivery is one invocation of a subscription callback.
type Delivery struct {
	Sub     string // the filter the callback was registered with
	Topic   string
	Payload string
	At      time.Duration
}

type CL struct {
	S      *vsched.Sched
	C      *client.Client
	Cfg    Config
	conn   *vnet.Conn // client's end
	mu     sync.Mutex
	Calls  []*Call
	Deliv  []Delivery
	seen   int
	Dialed bool
}

func New(s *vsched.Sched, cfg Config) *CL {
	c := &CL{S: s, Cfg: cfg}
	a, _ := vnet.Pair("cl", false)
	c.conn = a
	cc := &client.ClientConfig{
		ClientID: cfg.ClientID, User: cfg.User, Password: cfg.Password, CleanSession: true,
		KeepAlive: cfg.KeepAlive, ConnectTimeout: cfg.ConnectTimeout, RetryDelay: cfg.RetryDelay, RetryCount: cfg.RetryCount,
		PredefinedTopics: cfg.Predefined,
	}
	if cfg.Will {
		cc.WillTopic, cc.WillPayload, cc.WillQOS = "will/t", []byte("bye"), 1
	}
	c.C = client.VNewClient(cc, a)
	return c
}

// Dial starts the client's goroutines.
func (c *CL) Dial() error {
	err := c.C.Dial("ignored")
	c.Dialed = true
	c.S.Run()
	return err
}

func (c *CL) now() time.Duration { return c.S.Now().Sub(vsched.Epoch) }

// Go starts an API call in its own thread and runs to quiescence.
func (c *CL) Go(name string, f func() error) *Call {
	call := &Call{Name: name, Started: c.now()}
	c.Calls = append(c.Calls, call)
	vsched.Go(func() {
		err := f()
		call.RetSent = c.SentCount()
		call.Returned = true
		call.RetAt = c.now()
		if err != nil {
			call.Err = err.Error()
		}
	})
	c.S.Run()
	return call
}

// Handler returns a subscription callback that records deliveries.
func (c *CL) Handler(sub string) client.MessageHandlerFunc {
	return func(_ *client.Client, topic string, pkt *pkts1.Publish) {
		payload := ""
		if pkt != nil {
			payload = string(pkt.Data)
		}
		c.mu.Lock()
		c.Deliv = append(c.Deliv, Delivery{Sub: sub, Topic: topic, Payload: payload, At: c.now()})
		c.mu.Unlock()
	}
}

// FromGateway delivers one datagram to the client and runs to quiescence.
func (c *CL) FromGateway(b []byte) { c.conn.Inject(b); c.S.Run() }
func (c *CL) Inject(b []byte)      { c.conn.Inject(b) }

// Take returns what the client sent since the last call.
func (c *CL) Take() []Out {
	recs := c.conn.Sent()
	var out []Out
	for _, r := range recs[c.seen:] {
		p, err := refsn.Decode(r.Data)
		out = append(out, Out{At: r.At, Raw: r.Data, P: p, Err: err})
	}
	c.seen = len(recs)
	return out
}

// SentCount is the number of datagrams the client has written so far.
func (c *CL) SentCount() int { return len(c.conn.Sent()) }

func (c *CL) ConnClosed() bool { return c.conn.IsClosed() }

// SetResponder installs a reactive gateway: its answers become readable the
// moment the client has written the datagram.
func (c *CL) SetResponder(f func(p refsn.Pkt, nth int) [][]byte) {
	if f == nil {
		c.conn.Responder = nil
		return
	}
	n := 0
	c.conn.Responder = func(b []byte) [][]byte {
		p, err := refsn.Decode(b)
		if err != nil {
			return nil
		}
		n++
		return f(p, n)
	}
}

func (c *CL) Snapshot() string {
	var calls []string
	for _, k := range c.Calls {
		calls = append(calls, fmt.Sprintf("%s:%t:%s", k.Name, k.Returned, k.Err))
	}
	var del []string
	for _, d := range c.Deliv {
		del = append(del, d.Sub+"<-"+d.Topic)
	}
	sort.Strings(del)
	return fmt.Sprintf("%s | timers=%v | calls=%v | deliv=%v | in=%d", c.C.VSnapshot(), c.S.PendingTimers(), calls, del, c.conn.PendingRx())
}

// Finish shuts the client down so that the bubble can be torn down; returns
// the number of threads still alive afterwards.
func (c *CL) Finish() int {
	if c.Dialed {
		vsched.Go(func() { c.C.Close() })
		c.S.Run()
		for i := 0; i < 80 && c.S.Live() > 0; i++ {
			// answer a pending DISCONNECT so that Close can finish, then let polls run
			for _, o := range c.Take() {
				if o.Err == nil && o.P.Type == refsn.DISCONNECT {
					c.conn.Inject(refsn.Pkt{Type: refsn.DISCONNECT}.Encode())
				}
			}
			c.S.Advance(500 * time.Millisecond)
		}
	}
	return c.S.Live()
}

// ---- events ----

func EvG(label string, raw []byte) string { return label + "|G:" + hex.EncodeToString(raw) }

const EvTimer = "next-timer|T:next"

func EvAdvance(d time.Duration) string { return fmt.Sprintf("advance %v|T:%d", d, int64(d)) }

func Label(ev string) string {
	if i := strings.LastIndex(ev, "|"); i >= 0 {
		return ev[:i]
	}
	return ev
}

// ApplyBasic handles G: and T: steps; API events ("A:...") are the check's business.
func (c *CL) ApplyBasic(body string) bool {
	switch {
	case strings.HasPrefix(body, "G:"):
		b, _ := hex.DecodeString(body[2:])
		c.FromGateway(b)
	case body == "T:next":
		c.S.FireNext()
	case strings.HasPrefix(body, "T:"):
		var d int64
		fmt.Sscan(body[2:], &d)
		c.S.Advance(time.Duration(d))
	default:
		return false
	}
	return true
}
