// Package vatomic replaces "sync/atomic": a scheduling point, then the real operation.
package vatomic

import (
	"sync/atomic"

	"verif/mc/vsched"
)

func LoadUint32(p *uint32) uint32     { vsched.Point("atomic.Load"); return atomic.LoadUint32(p) }
func StoreUint32(p *uint32, v uint32) { vsched.Point("atomic.Store"); atomic.StoreUint32(p, v) }
func SwapUint32(p *uint32, v uint32) uint32 {
	vsched.Point("atomic.Swap")
	return atomic.SwapUint32(p, v)
}
func AddUint32(p *uint32, d uint32) uint32 { vsched.Point("atomic.Add"); return atomic.AddUint32(p, d) }
func CompareAndSwapUint32(p *uint32, o, n uint32) bool {
	vsched.Point("atomic.CAS")
	return atomic.CompareAndSwapUint32(p, o, n)
}
func LoadInt32(p *int32) int32             { vsched.Point("atomic.Load"); return atomic.LoadInt32(p) }
func StoreInt32(p *int32, v int32)         { vsched.Point("atomic.Store"); atomic.StoreInt32(p, v) }
func AddInt32(p *int32, d int32) int32     { vsched.Point("atomic.Add"); return atomic.AddInt32(p, d) }
func LoadUint64(p *uint64) uint64          { vsched.Point("atomic.Load"); return atomic.LoadUint64(p) }
func StoreUint64(p *uint64, v uint64)      { vsched.Point("atomic.Store"); atomic.StoreUint64(p, v) }
func AddUint64(p *uint64, d uint64) uint64 { vsched.Point("atomic.Add"); return atomic.AddUint64(p, d) }
func LoadInt64(p *int64) int64             { vsched.Point("atomic.Load"); return atomic.LoadInt64(p) }
func StoreInt64(p *int64, v int64)         { vsched.Point("atomic.Store"); atomic.StoreInt64(p, v) }
func AddInt64(p *int64, d int64) int64     { vsched.Point("atomic.Add"); return atomic.AddInt64(p, d) }
