// Package vatomic replaces "sync/atomic": a scheduling point, then the real operation.
package vatomic

import (
	"sync/atomic"
	"unsafe"

	"verif/mc/vsched"
)

func LoadUint32(p *uint32) uint32     { vsched.Point("atomic.Load"); return atomic.LoadUint32(p) }
func StoreUint32(p *uint32, v uint32) { vsched.Point("atomic.Store"); atomic.StoreUint32(p, v) }
func SwapUint32(p *uint32, v uint32) uint32 {
	vsched.Point("atomic.Swap")
	return atomic.SwapUint32(p, v)
}
func AddUint32(p *uint32, d uint32) uint32 { vsched.Point("atomic.Add"); return atomic.AddUint32(p, d) }
func CompareAndSwapUint32(p *uint32, o, n uint32) bool {
	vsched.Point("atomic.CAS")
	return atomic.CompareAndSwapUint32(p, o, n)
}
func LoadInt32(p *int32) int32             { vsched.Point("atomic.Load"); return atomic.LoadInt32(p) }
func StoreInt32(p *int32, v int32)         { vsched.Point("atomic.Store"); atomic.StoreInt32(p, v) }
func AddInt32(p *int32, d int32) int32     { vsched.Point("atomic.Add"); return atomic.AddInt32(p, d) }
func LoadUint64(p *uint64) uint64          { vsched.Point("atomic.Load"); return atomic.LoadUint64(p) }
func StoreUint64(p *uint64, v uint64)      { vsched.Point("atomic.Store"); atomic.StoreUint64(p, v) }
func AddUint64(p *uint64, d uint64) uint64 { vsched.Point("atomic.Add"); return atomic.AddUint64(p, d) }
func LoadInt64(p *int64) int64             { vsched.Point("atomic.Load"); return atomic.LoadInt64(p) }
func StoreInt64(p *int64, v int64)         { vsched.Point("atomic.Store"); atomic.StoreInt64(p, v) }
func AddInt64(p *int64, d int64) int64     { vsched.Point("atomic.Add"); return atomic.AddInt64(p, d) }

func SwapInt32(p *int32, v int32) int32 { vsched.Point("atomic.Swap"); return atomic.SwapInt32(p, v) }
func CompareAndSwapInt32(p *int32, o, n int32) bool {
	vsched.Point("atomic.CAS")
	return atomic.CompareAndSwapInt32(p, o, n)
}
func SwapInt64(p *int64, v int64) int64 { vsched.Point("atomic.Swap"); return atomic.SwapInt64(p, v) }
func CompareAndSwapInt64(p *int64, o, n int64) bool {
	vsched.Point("atomic.CAS")
	return atomic.CompareAndSwapInt64(p, o, n)
}
func SwapUint64(p *uint64, v uint64) uint64 {
	vsched.Point("atomic.Swap")
	return atomic.SwapUint64(p, v)
}
func CompareAndSwapUint64(p *uint64, o, n uint64) bool {
	vsched.Point("atomic.CAS")
	return atomic.CompareAndSwapUint64(p, o, n)
}
func LoadUintptr(p *uintptr) uintptr     { vsched.Point("atomic.Load"); return atomic.LoadUintptr(p) }
func StoreUintptr(p *uintptr, v uintptr) { vsched.Point("atomic.Store"); atomic.StoreUintptr(p, v) }
func SwapUintptr(p *uintptr, v uintptr) uintptr {
	vsched.Point("atomic.Swap")
	return atomic.SwapUintptr(p, v)
}
func AddUintptr(p *uintptr, d uintptr) uintptr {
	vsched.Point("atomic.Add")
	return atomic.AddUintptr(p, d)
}
func CompareAndSwapUintptr(p *uintptr, o, n uintptr) bool {
	vsched.Point("atomic.CAS")
	return atomic.CompareAndSwapUintptr(p, o, n)
}

func LoadPointer(p *unsafe.Pointer) unsafe.Pointer {
	vsched.Point("atomic.Load")
	return atomic.LoadPointer(p)
}
func StorePointer(p *unsafe.Pointer, v unsafe.Pointer) {
	vsched.Point("atomic.Store")
	atomic.StorePointer(p, v)
}
func SwapPointer(p *unsafe.Pointer, v unsafe.Pointer) unsafe.Pointer {
	vsched.Point("atomic.Swap")
	return atomic.SwapPointer(p, v)
}
func CompareAndSwapPointer(p *unsafe.Pointer, o, n unsafe.Pointer) bool {
	vsched.Point("atomic.CAS")
	return atomic.CompareAndSwapPointer(p, o, n)
}

// ---- the typed values of sync/atomic ----

type Value struct{ v atomic.Value }

func (x *Value) Load() any      { vsched.Point("atomic.Load"); return x.v.Load() }
func (x *Value) Store(v any)    { vsched.Point("atomic.Store"); x.v.Store(v) }
func (x *Value) Swap(v any) any { vsched.Point("atomic.Swap"); return x.v.Swap(v) }
func (x *Value) CompareAndSwap(o, n any) bool {
	vsched.Point("atomic.CAS")
	return x.v.CompareAndSwap(o, n)
}

type Bool struct{ v atomic.Bool }

func (x *Bool) Load() bool       { vsched.Point("atomic.Load"); return x.v.Load() }
func (x *Bool) Store(v bool)     { vsched.Point("atomic.Store"); x.v.Store(v) }
func (x *Bool) Swap(v bool) bool { vsched.Point("atomic.Swap"); return x.v.Swap(v) }
func (x *Bool) CompareAndSwap(o, n bool) bool {
	vsched.Point("atomic.CAS")
	return x.v.CompareAndSwap(o, n)
}

type Pointer[T any] struct{ v atomic.Pointer[T] }

func (x *Pointer[T]) Load() *T     { vsched.Point("atomic.Load"); return x.v.Load() }
func (x *Pointer[T]) Store(v *T)   { vsched.Point("atomic.Store"); x.v.Store(v) }
func (x *Pointer[T]) Swap(v *T) *T { vsched.Point("atomic.Swap"); return x.v.Swap(v) }
func (x *Pointer[T]) CompareAndSwap(o, n *T) bool {
	vsched.Point("atomic.CAS")
	return x.v.CompareAndSwap(o, n)
}

type Int32 struct{ v atomic.Int32 }

func (x *Int32) Load() int32        { vsched.Point("atomic.Load"); return x.v.Load() }
func (x *Int32) Store(v int32)      { vsched.Point("atomic.Store"); x.v.Store(v) }
func (x *Int32) Swap(v int32) int32 { vsched.Point("atomic.Swap"); return x.v.Swap(v) }
func (x *Int32) Add(d int32) int32  { vsched.Point("atomic.Add"); return x.v.Add(d) }
func (x *Int32) CompareAndSwap(o, n int32) bool {
	vsched.Point("atomic.CAS")
	return x.v.CompareAndSwap(o, n)
}

type Int64 struct{ v atomic.Int64 }

func (x *Int64) Load() int64        { vsched.Point("atomic.Load"); return x.v.Load() }
func (x *Int64) Store(v int64)      { vsched.Point("atomic.Store"); x.v.Store(v) }
func (x *Int64) Swap(v int64) int64 { vsched.Point("atomic.Swap"); return x.v.Swap(v) }
func (x *Int64) Add(d int64) int64  { vsched.Point("atomic.Add"); return x.v.Add(d) }
func (x *Int64) CompareAndSwap(o, n int64) bool {
	vsched.Point("atomic.CAS")
	return x.v.CompareAndSwap(o, n)
}

type Uint32 struct{ v atomic.Uint32 }

func (x *Uint32) Load() uint32         { vsched.Point("atomic.Load"); return x.v.Load() }
func (x *Uint32) Store(v uint32)       { vsched.Point("atomic.Store"); x.v.Store(v) }
func (x *Uint32) Swap(v uint32) uint32 { vsched.Point("atomic.Swap"); return x.v.Swap(v) }
func (x *Uint32) Add(d uint32) uint32  { vsched.Point("atomic.Add"); return x.v.Add(d) }
func (x *Uint32) CompareAndSwap(o, n uint32) bool {
	vsched.Point("atomic.CAS")
	return x.v.CompareAndSwap(o, n)
}

type Uint64 struct{ v atomic.Uint64 }

func (x *Uint64) Load() uint64         { vsched.Point("atomic.Load"); return x.v.Load() }
func (x *Uint64) Store(v uint64)       { vsched.Point("atomic.Store"); x.v.Store(v) }
func (x *Uint64) Swap(v uint64) uint64 { vsched.Point("atomic.Swap"); return x.v.Swap(v) }
func (x *Uint64) Add(d uint64) uint64  { vsched.Point("atomic.Add"); return x.v.Add(d) }
func (x *Uint64) CompareAndSwap(o, n uint64) bool {
	vsched.Point("atomic.CAS")
	return x.v.CompareAndSwap(o, n)
}

type Uintptr struct{ v atomic.Uintptr }

func (x *Uintptr) Load() uintptr          { vsched.Point("atomic.Load"); return x.v.Load() }
func (x *Uintptr) Store(v uintptr)        { vsched.Point("atomic.Store"); x.v.Store(v) }
func (x *Uintptr) Swap(v uintptr) uintptr { vsched.Point("atomic.Swap"); return x.v.Swap(v) }
func (x *Uintptr) Add(d uintptr) uintptr  { vsched.Point("atomic.Add"); return x.v.Add(d) }
func (x *Uintptr) CompareAndSwap(o, n uintptr) bool {
	vsched.Point("atomic.CAS")
	return x.v.CompareAndSwap(o, n)
}
