// Package vtime replaces "time" in the packages under exploration.  Under a
// vsched scheduler all clocks and timers are virtual; otherwise it falls back
// to the real package (plain builds, free-running race pass in a synctest bubble).
package vtime

import (
	"time"

	"verif/mc/vsched"
)

type Duration = time.Duration
type Time = time.Time
type Month = time.Month

const (
	Nanosecond  = time.Nanosecond
	Microsecond = time.Microsecond
	Millisecond = time.Millisecond
	Second      = time.Second
	Minute      = time.Minute
	Hour        = time.Hour
)

func sched() *vsched.Sched {
	if t := vsched.Cur(); t != nil {
		return t.S
	}
	return nil
}

func Now() Time {
	if s := sched(); s != nil {
		return s.Now()
	}
	return time.Now()
}

func Since(t Time) Duration { return Now().Sub(t) }
func Until(t Time) Duration { return t.Sub(Now()) }

type Timer struct {
	C    <-chan Time
	real *time.Timer
	vt   *vsched.Timer
}

func AfterFunc(d Duration, f func()) *Timer {
	s := sched()
	if s == nil {
		return &Timer{real: time.AfterFunc(d, f)}
	}
	t := &Timer{vt: s.AddTimer(d, f, nil, false)}
	// the timer may fire before the caller has stored the returned *Timer
	vsched.Point("AfterFunc.return")
	return t
}

func NewTimer(d Duration) *Timer {
	s := sched()
	if s == nil {
		r := time.NewTimer(d)
		return &Timer{C: r.C, real: r}
	}
	ch := make(chan Time, 1)
	t := &Timer{C: ch}
	t.vt = s.AddTimer(d, nil, func() {
		select {
		case ch <- s.Now():
		default:
		}
	}, false)
	return t
}

func After(d Duration) <-chan Time { return NewTimer(d).C }

func (t *Timer) Stop() bool {
	if t.real != nil {
		return t.real.Stop()
	}
	vsched.Point("timer.Stop")
	if vsched.Dead() {
		return false
	}
	return t.vt.Stop()
}

func (t *Timer) Reset(d Duration) bool {
	if t.real != nil {
		return t.real.Reset(d)
	}
	vsched.Point("timer.Reset")
	if vsched.Dead() {
		return false
	}
	return t.vt.Reset(d)
}

type Ticker struct {
	C    <-chan Time
	real *time.Ticker
	vt   *vsched.Timer
}

func NewTicker(d Duration) *Ticker {
	s := sched()
	if s == nil {
		r := time.NewTicker(d)
		return &Ticker{C: r.C, real: r}
	}
	if d <= 0 {
		panic("non-positive interval for NewTicker")
	}
	ch := make(chan Time, 1)
	t := &Ticker{C: ch}
	t.vt = s.AddTimer(d, nil, func() {
		select {
		case ch <- s.Now():
		default:
		}
	}, false)
	t.vt.Period = d
	return t
}

func (t *Ticker) Stop() {
	if t.real != nil {
		t.real.Stop()
		return
	}
	vsched.Point("ticker.Stop")
	if vsched.Dead() {
		return
	}
	t.vt.Stop()
}

func (t *Ticker) Reset(d Duration) {
	if t.real != nil {
		t.real.Reset(d)
		return
	}
	vsched.Point("ticker.Reset")
	if vsched.Dead() {
		return
	}
	t.vt.Period = d
	t.vt.Reset(d)
}

func Sleep(d Duration) {
	if sched() == nil {
		time.Sleep(d)
		return
	}
	<-After(d)
}

func Date(year int, month Month, day, hour, min, sec, nsec int, loc *time.Location) Time {
	return time.Date(year, month, day, hour, min, sec, nsec, loc)
}
func Unix(sec, nsec int64) Time { return time.Unix(sec, nsec) }

var UTC = time.UTC

// ---- pass-throughs that do not read the clock (so that code using them still builds under the overlay) ----

type Location = time.Location
type Weekday = time.Weekday
type ParseError = time.ParseError

var Local = time.Local

func ParseDuration(s string) (Duration, error)    { return time.ParseDuration(s) }
func Parse(layout, value string) (Time, error)    { return time.Parse(layout, value) }
func UnixMilli(msec int64) Time                   { return time.UnixMilli(msec) }
func UnixMicro(usec int64) Time                   { return time.UnixMicro(usec) }
func FixedZone(name string, offset int) *Location { return time.FixedZone(name, offset) }
func LoadLocation(name string) (*Location, error) { return time.LoadLocation(name) }

// Tick is NewTicker(d).C (virtual clock).
func Tick(d Duration) <-chan Time {
	if d <= 0 {
		return nil
	}
	return NewTicker(d).C
}

const (
	Layout      = time.Layout
	ANSIC       = time.ANSIC
	UnixDate    = time.UnixDate
	RFC822      = time.RFC822
	RFC1123     = time.RFC1123
	RFC3339     = time.RFC3339
	RFC3339Nano = time.RFC3339Nano
	Kitchen     = time.Kitchen
	Stamp       = time.Stamp
	StampMilli  = time.StampMilli
	StampMicro  = time.StampMicro
	StampNano   = time.StampNano
	DateTime    = time.DateTime
	DateOnly    = time.DateOnly
	TimeOnly    = time.TimeOnly
)

const (
	January   = time.January
	February  = time.February
	March     = time.March
	April     = time.April
	May       = time.May
	June      = time.June
	July      = time.July
	August    = time.August
	September = time.September
	October   = time.October
	November  = time.November
	December  = time.December
)

const (
	Sunday    = time.Sunday
	Monday    = time.Monday
	Tuesday   = time.Tuesday
	Wednesday = time.Wednesday
	Thursday  = time.Thursday
	Friday    = time.Friday
	Saturday  = time.Saturday
)
