// Package vsync replaces "sync" in the packages under exploration.  Mutexes
// are cooperative under a vsched scheduler (a real mutex that is contended is
// not a durable block inside a synctest bubble); WaitGroup, Once and Cond are
// the real ones (durable or non-blocking).
package vsync

import (
	"sync"

	"verif/mc/vsched"
)

type WaitGroup = sync.WaitGroup
type Once = sync.Once
type Locker = sync.Locker
type Cond = sync.Cond
type Pool = sync.Pool

func NewCond(l Locker) *Cond { return sync.NewCond(l) }

type Mutex struct {
	real sync.Mutex
	held bool
}

func coop() bool {
	t := vsched.Cur()
	return t != nil
}

func rootOrDead() bool {
	t := vsched.Cur()
	return t != nil && (t.S.IsRoot() || vsched.Dead())
}

func (m *Mutex) Lock() {
	if !coop() {
		m.real.Lock()
		return
	}
	if rootOrDead() {
		return
	}
	vsched.PointIf("Mutex.Lock", func() bool { return !m.held })
	if vsched.Dead() {
		return
	}
	m.held = true
}

func (m *Mutex) Unlock() {
	if !coop() {
		m.real.Unlock()
		return
	}
	if rootOrDead() {
		return
	}
	m.held = false
}

func (m *Mutex) TryLock() bool {
	if !coop() {
		return m.real.TryLock()
	}
	if rootOrDead() {
		return true
	}
	vsched.Point("Mutex.TryLock")
	if m.held {
		return false
	}
	m.held = true
	return true
}

type RWMutex struct {
	real    sync.RWMutex
	writer  bool
	readers int
}

func (m *RWMutex) Lock() {
	if !coop() {
		m.real.Lock()
		return
	}
	if rootOrDead() {
		return
	}
	vsched.PointIf("RWMutex.Lock", func() bool { return !m.writer && m.readers == 0 })
	if vsched.Dead() {
		return
	}
	m.writer = true
}

func (m *RWMutex) Unlock() {
	if !coop() {
		m.real.Unlock()
		return
	}
	if rootOrDead() {
		return
	}
	m.writer = false
}

func (m *RWMutex) RLock() {
	if !coop() {
		m.real.RLock()
		return
	}
	if rootOrDead() {
		return
	}
	vsched.PointIf("RWMutex.RLock", func() bool { return !m.writer })
	if vsched.Dead() {
		return
	}
	m.readers++
}

func (m *RWMutex) RUnlock() {
	if !coop() {
		m.real.RUnlock()
		return
	}
	if rootOrDead() {
		return
	}
	m.readers--
}

func (m *RWMutex) RLocker() Locker { return (*rlocker)(m) }

type rlocker RWMutex

func (r *rlocker) Lock()   { (*RWMutex)(r).RLock() }
func (r *rlocker) Unlock() { (*RWMutex)(r).RUnlock() }

// Map is the real sync.Map with a scheduling point before each operation and
// a canonical iteration order: Range visits keys in the order they were first
// stored (sync.Map's own order is random, which would make executions
// irreproducible).  Code whose result depends on the iteration order is
// explored for this one order only.
type Map struct {
	m     sync.Map
	mu    sync.Mutex
	order []any
}

func (m *Map) note(k any, existed bool) {
	if !existed {
		m.mu.Lock()
		m.order = append(m.order, k)
		m.mu.Unlock()
	}
}

func (m *Map) Load(k any) (any, bool) { vsched.Point("Map.Load"); return m.m.Load(k) }
func (m *Map) Store(k, v any) {
	vsched.Point("Map.Store")
	_, existed := m.m.Swap(k, v)
	m.note(k, existed)
}
func (m *Map) Delete(k any) { vsched.Point("Map.Delete"); m.m.Delete(k) }
func (m *Map) LoadOrStore(k, v any) (any, bool) {
	vsched.Point("Map.LoadOrStore")
	a, loaded := m.m.LoadOrStore(k, v)
	m.note(k, loaded)
	return a, loaded
}
func (m *Map) LoadAndDelete(k any) (any, bool) {
	vsched.Point("Map.LoadAndDelete")
	return m.m.LoadAndDelete(k)
}
func (m *Map) Range(f func(k, v any) bool) {
	vsched.Point("Map.Range")
	m.mu.Lock()
	keys := m.order
	// compact tombstones now and then
	if len(keys) > 64 {
		live := keys[:0:0]
		for _, k := range keys {
			if _, ok := m.m.Load(k); ok {
				live = append(live, k)
			}
		}
		m.order, keys = live, live
	}
	m.mu.Unlock()
	seen := map[any]bool{}
	for _, k := range keys {
		if seen[k] {
			continue
		}
		seen[k] = true
		if v, ok := m.m.Load(k); ok {
			if !f(k, v) {
				return
			}
		}
	}
}

// ---- the rest of sync.Map's methods and the Once helpers (so that code using them still builds) ----

func (m *Map) Swap(k, v any) (any, bool) {
	vsched.Point("Map.Swap")
	prev, loaded := m.m.Swap(k, v)
	m.note(k, loaded)
	return prev, loaded
}
func (m *Map) CompareAndSwap(k, old, new any) bool {
	vsched.Point("Map.CompareAndSwap")
	return m.m.CompareAndSwap(k, old, new)
}
func (m *Map) CompareAndDelete(k, old any) bool {
	vsched.Point("Map.CompareAndDelete")
	return m.m.CompareAndDelete(k, old)
}
func (m *Map) Clear() {
	vsched.Point("Map.Clear")
	m.m.Clear()
	m.mu.Lock()
	m.order = nil
	m.mu.Unlock()
}

func OnceFunc(f func()) func()                                 { return sync.OnceFunc(f) }
func OnceValue[T any](f func() T) func() T                     { return sync.OnceValue(f) }
func OnceValues[T1, T2 any](f func() (T1, T2)) func() (T1, T2) { return sync.OnceValues(f) }
