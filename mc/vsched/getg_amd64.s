#include "textflag.h"

// func getg() uintptr
TEXT ·getg(SB),NOSPLIT,$0-8
	MOVQ (TLS), AX
	MOVQ AX, ret+0(FP)
	RET
