// Package vsched is a cooperative scheduler for goroutines running inside a
// testing/synctest bubble.  Exactly one registered thread runs between two
// "points"; which one runs next (and which virtual timer fires next) is decided
// by a choice sequence, so that an execution is a pure function of that
// sequence and an explorer can enumerate all of them.
//
// The root goroutine of the bubble is the scheduler and the test driver.  Every
// other goroutine must be spawned through Go (the overlay rewrites `go`
// statements and errgroup.Go), which gives it a deterministic thread id.
package vsched

import (
	"fmt"
	"runtime/debug"
	"sort"
	"strconv"
	"strings"
	"sync"
	"sync/atomic"
	"testing/synctest"
	"time"
)

// Epoch is the virtual time at which every execution starts.
var Epoch = time.Date(2020, 1, 1, 0, 0, 0, 0, time.UTC)

var threads sync.Map // goid -> *Thread

type Thread struct {
	S       *Sched
	ID      string
	spawned int
	wake    chan struct{}
	label   string
	enabled func() bool
	root    bool
}

type abortPanic struct{}

// Kind of a recorded choice point.
const (
	KindSched = 's' // which thread / timer runs next
	KindData  = 'd' // environment answer (fault, reply variant)
)

type Step struct {
	Kind    byte
	N       int      // number of alternatives
	Choice  int      // alternative taken
	RunFst  bool     // alternative 0 continues the thread that ran last
	Labels  []string // one per alternative
	Time    time.Duration
	NThread int // how many of the alternatives are threads (rest are timers)
}

type Timer struct {
	s      *Sched
	At     time.Time
	Seq    int
	ID     string
	Fn     func() // run as a new thread when fired (AfterFunc)
	Inline func() // run by the scheduler itself when fired (channel send, poll wake-up)
	Poll   bool   // low priority: conn read deadline
	active bool
	Period time.Duration
}

type Sched struct {
	mu     sync.Mutex
	root   *Thread
	now    time.Time
	parked map[*Thread]struct{}
	timers []*Timer
	tseq   int
	live   int32
	last   *Thread
	dead   atomic.Bool

	Prefix []int
	Trace  []Step

	// TimerChoices makes the earliest pending (non-poll) timers alternatives at
	// every scheduling point (E2).  When false timers fire only when the driver
	// asks for it (E1).
	TimerChoices bool
	Horizon      time.Time // timers later than this never fire as choices

	Panics    []string
	HarnessEr string // non-empty: harness nondeterminism / misuse; never a verdict
	Steps     int
	MaxSteps  int
	Events    []string // optional schedule log
	LogSched  bool
	// NoChoice: take the default alternative everywhere and record nothing
	// (setup phases whose schedule is not explored).
	NoChoice bool
	// OnStep, if set, is called by the scheduler at every quiescent moment
	// before it picks the next thread (all threads are parked or blocked, so
	// the monitor may read any state).
	OnStep func()
}

// getg returns the address of the calling goroutine's g (assembly); it is
// unique among live goroutines and serves as the key of the thread registry.
func getg() uintptr

func goid() uintptr { return getg() }

// Cur returns the calling goroutine's thread, or nil when the goroutine is not
// under a scheduler (plain builds, race pass).
func Cur() *Thread {
	if v, ok := threads.Load(goid()); ok {
		return v.(*Thread)
	}
	return nil
}

// New must be called from the bubble's root goroutine.
func New(prefix []int) *Sched {
	s := &Sched{now: Epoch, parked: map[*Thread]struct{}{}, Prefix: prefix, MaxSteps: 200000}
	s.root = &Thread{S: s, ID: "0", root: true}
	threads.Store(goid(), s.root)
	return s
}

// Finish aborts whatever is still parked and unregisters the root.  Threads
// blocked natively must have been made to exit by the driver (cancel contexts,
// close conns) before; the ones that have not are reported by Leaked.
func (s *Sched) Finish() {
	s.dead.Store(true)
	for i := 0; i < 1000; i++ {
		synctest.Wait()
		s.mu.Lock()
		n := len(s.parked)
		for t := range s.parked {
			close(t.wake)
			delete(s.parked, t)
		}
		s.mu.Unlock()
		if n == 0 {
			break
		}
	}
	threads.Delete(goid())
}

// Live is the number of registered threads that have not exited.
func (s *Sched) Live() int { return int(atomic.LoadInt32(&s.live)) }

func (s *Sched) Now() time.Time { return s.now }

func (s *Sched) IsRoot() bool { t := Cur(); return t != nil && t.root }

// Go spawns f as a new thread of the caller's scheduler.
func Go(f func()) {
	t := Cur()
	if t == nil {
		go f()
		return
	}
	t.S.spawn(t.ID+"."+strconv.Itoa(t.spawned), f)
	t.spawned++
}

func (s *Sched) spawn(id string, f func()) *Thread {
	child := &Thread{S: s, ID: id}
	atomic.AddInt32(&s.live, 1)
	go func() {
		g := goid()
		threads.Store(g, child)
		defer func() {
			if r := recover(); r != nil {
				if _, ok := r.(abortPanic); !ok {
					s.mu.Lock()
					s.Panics = append(s.Panics, fmt.Sprintf("panic in thread %s: %v\n%s", id, r, trimStack(debug.Stack())))
					s.mu.Unlock()
				}
			}
			threads.Delete(g)
			atomic.AddInt32(&s.live, -1)
		}()
		f()
	}()
	return child
}

func trimStack(b []byte) string {
	lines := strings.Split(string(b), "\n")
	var out []string
	for _, l := range lines {
		if strings.Contains(l, "/repo/") || strings.Contains(l, "panic") {
			out = append(out, strings.TrimSpace(l))
		}
		if len(out) > 12 {
			break
		}
	}
	return strings.Join(out, " | ")
}

// Point is a scheduling point: the caller parks until the scheduler picks it.
func Point(label string) { PointIf(label, nil) }

// PointIf parks the caller; it is eligible only while enabled() is true
// (evaluated by the scheduler when everything is quiescent).
func PointIf(label string, enabled func() bool) {
	t := Cur()
	if t == nil || t.root {
		return
	}
	s := t.S
	if s.dead.Load() {
		return
	}
	t.wake = make(chan struct{})
	t.label = label
	t.enabled = enabled
	s.mu.Lock()
	s.parked[t] = struct{}{}
	s.mu.Unlock()
	<-t.wake
	if s.dead.Load() {
		panic(abortPanic{})
	}
}

// Dead reports whether the execution has been abandoned (shims then do nothing).
func Dead() bool {
	t := Cur()
	return t != nil && t.S.dead.Load()
}

// Choose records an environment choice with n alternatives and returns the
// one taken (0 is the default answer).
func (s *Sched) Choose(n int, label string) int {
	if n <= 1 {
		return 0
	}
	s.mu.Lock()
	defer s.mu.Unlock()
	labels := make([]string, n)
	for i := range labels {
		labels[i] = label + "=" + strconv.Itoa(i)
	}
	return s.choose(Step{Kind: KindData, N: n, Labels: labels})
}

// caller holds s.mu or is the root at quiescence
func (s *Sched) choose(st Step) int {
	if s.NoChoice {
		return 0
	}
	i := len(s.Trace)
	c := 0
	if i < len(s.Prefix) {
		c = s.Prefix[i]
		if c < 0 || c >= st.N {
			s.HarnessEr = fmt.Sprintf("replay divergence at choice %d: want alternative %d of %d (%v)", i, c, st.N, st.Labels)
			c = 0
		}
	}
	st.Choice = c
	st.Time = s.now.Sub(Epoch)
	s.Trace = append(s.Trace, st)
	return c
}

type cand struct {
	t  *Thread
	tm *Timer
}

func (s *Sched) enabledThreads() []*Thread {
	s.mu.Lock()
	defer s.mu.Unlock()
	var en []*Thread
	for t := range s.parked {
		if t.enabled == nil || t.enabled() {
			en = append(en, t)
		}
	}
	sort.Slice(en, func(i, j int) bool { return en[i].ID < en[j].ID })
	return en
}

// earliest pending non-poll timers (ties included), nil if none
func (s *Sched) earliestTimers(poll bool) []*Timer {
	var best []*Timer
	for _, tm := range s.timers {
		if !tm.active || tm.Poll != poll {
			continue
		}
		if len(best) == 0 || tm.At.Before(best[0].At) {
			best = []*Timer{tm}
		} else if tm.At.Equal(best[0].At) {
			best = append(best, tm)
		}
	}
	sort.Slice(best, func(i, j int) bool { return best[i].Seq < best[j].Seq })
	return best
}

// Run lets threads run until nothing is enabled (quiescence).  In E2 mode
// (TimerChoices) timers up to Horizon are alternatives as well.
func (s *Sched) Run() {
	for {
		synctest.Wait()
		if s.HarnessEr != "" || len(s.Panics) > 0 {
			return
		}
		if s.OnStep != nil {
			s.OnStep()
		}
		en := s.enabledThreads()
		var cands []cand
		runFst := false
		// canonical order: the thread that ran last first (if still enabled),
		// then the other threads by id, then timers by (deadline, seq)
		for _, t := range en {
			if t == s.last {
				cands = append(cands, cand{t: t})
				runFst = true
			}
		}
		for _, t := range en {
			if t != s.last {
				cands = append(cands, cand{t: t})
			}
		}
		nthr := len(cands)
		if s.TimerChoices {
			for _, tm := range s.earliestTimers(false) {
				if !tm.At.After(s.Horizon) {
					cands = append(cands, cand{tm: tm})
				}
			}
		}
		if len(cands) == 0 {
			return
		}
		s.Steps++
		if s.Steps > s.MaxSteps {
			s.HarnessEr = "step limit exceeded (livelock?)"
			return
		}
		c := 0
		if len(cands) > 1 {
			labels := make([]string, len(cands))
			for i, cd := range cands {
				if cd.t != nil {
					labels[i] = cd.t.ID + ":" + cd.t.label
				} else {
					labels[i] = "fire:" + cd.tm.ID
				}
			}
			c = s.choose(Step{Kind: KindSched, N: len(cands), RunFst: runFst, Labels: labels, NThread: nthr})
		}
		cd := cands[c]
		if s.LogSched {
			if cd.t != nil {
				s.Events = append(s.Events, cd.t.ID+":"+cd.t.label)
			} else {
				s.Events = append(s.Events, "fire:"+cd.tm.ID)
			}
		}
		if cd.t != nil {
			s.mu.Lock()
			delete(s.parked, cd.t)
			s.mu.Unlock()
			s.last = cd.t
			close(cd.t.wake)
		} else {
			s.fire(cd.tm)
		}
	}
}

func (s *Sched) fire(tm *Timer) {
	if tm.At.After(s.now) {
		s.now = tm.At
	}
	tm.active = false
	s.removeTimer(tm)
	if tm.Period > 0 {
		tm.At = tm.At.Add(tm.Period)
		tm.active = true
		s.timers = append(s.timers, tm)
	}
	if tm.Inline != nil {
		tm.Inline()
	}
	if tm.Fn != nil {
		s.last = s.spawn(tm.ID, tm.Fn)
	}
}

func (s *Sched) removeTimer(tm *Timer) {
	for i, x := range s.timers {
		if x == tm {
			s.timers = append(s.timers[:i], s.timers[i+1:]...)
			return
		}
	}
}

// AddTimer registers a virtual timer.  Callable from threads (after their
// point) and from the root.
func (s *Sched) AddTimer(d time.Duration, fn, inline func(), poll bool) *Timer {
	s.mu.Lock()
	defer s.mu.Unlock()
	s.tseq++
	tm := &Timer{s: s, At: s.now.Add(d), Seq: s.tseq, ID: "t" + strconv.Itoa(s.tseq), Fn: fn, Inline: inline, Poll: poll, active: true}
	s.timers = append(s.timers, tm)
	return tm
}

func (s *Sched) AddTimerAt(at time.Time, fn, inline func(), poll bool) *Timer {
	return s.AddTimer(at.Sub(s.now), fn, inline, poll)
}

// Stop deactivates the timer; reports whether it was pending.
func (tm *Timer) Stop() bool {
	s := tm.s
	s.mu.Lock()
	defer s.mu.Unlock()
	was := tm.active
	tm.active = false
	s.removeTimer(tm)
	return was
}

// Reset re-arms the timer d from now; reports whether it was pending.
func (tm *Timer) Reset(d time.Duration) bool {
	s := tm.s
	s.mu.Lock()
	defer s.mu.Unlock()
	was := tm.active
	s.removeTimer(tm)
	tm.At = s.now.Add(d)
	tm.active = true
	s.timers = append(s.timers, tm)
	return was
}

func (tm *Timer) Active() bool { return tm.active }

// NextTimer returns the deadline of the earliest pending non-poll timer.
func (s *Sched) NextTimer() (time.Time, bool) {
	e := s.earliestTimers(false)
	if len(e) == 0 {
		return time.Time{}, false
	}
	return e[0].At, true
}

// PendingTimers lists pending non-poll timers as offsets from now (sorted).
func (s *Sched) PendingTimers() []time.Duration {
	var out []time.Duration
	for _, tm := range s.timers {
		if tm.active && !tm.Poll {
			out = append(out, tm.At.Sub(s.now))
		}
	}
	sort.Slice(out, func(i, j int) bool { return out[i] < out[j] })
	return out
}

// AdvanceTo moves the virtual clock to t, firing every timer and poll deadline
// due on the way in deadline order and running to quiescence after each.
// Among equal deadlines non-poll timers go first, ties by creation order
// unless tieChoice is set, in which case the order is a recorded choice.
func (s *Sched) AdvanceTo(t time.Time, tieChoice bool) {
	for {
		if s.HarnessEr != "" || len(s.Panics) > 0 {
			return
		}
		nt := s.earliestTimers(false)
		np := s.earliestTimers(true)
		var pick *Timer
		switch {
		case len(nt) > 0 && (len(np) == 0 || !nt[0].At.After(np[0].At)):
			pick = nt[0]
			if tieChoice && len(nt) > 1 && !nt[0].At.After(t) {
				labels := make([]string, len(nt))
				for i, x := range nt {
					labels[i] = "fire:" + x.ID
				}
				pick = nt[s.choose(Step{Kind: KindSched, N: len(nt), Labels: labels})]
			}
		case len(np) > 0:
			pick = np[0]
		}
		if pick == nil || pick.At.After(t) {
			break
		}
		s.fire(pick)
		s.Run()
	}
	if t.After(s.now) {
		s.now = t
	}
}

// SetNow moves the clock forward without firing anything (driver use: place an
// event at an instant before the timers due at that same instant).
func (s *Sched) SetNow(t time.Time) {
	if t.After(s.now) {
		s.now = t
	}
}

// Advance is AdvanceTo(now+d).
func (s *Sched) Advance(d time.Duration) { s.AdvanceTo(s.now.Add(d), false) }

// FireNext advances to the earliest non-poll timer and fires it (running the
// polls on the way).  Returns false if there is none.
func (s *Sched) FireNext() bool {
	at, ok := s.NextTimer()
	if !ok {
		return false
	}
	s.AdvanceTo(at, false)
	return true
}

// ParkedLabels describes the threads parked at points (for deadlock reports).
func (s *Sched) ParkedLabels() []string {
	s.mu.Lock()
	defer s.mu.Unlock()
	var out []string
	for t := range s.parked {
		out = append(out, t.ID+":"+t.label)
	}
	sort.Strings(out)
	return out
}
