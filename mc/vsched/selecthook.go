package vsched

import _ "unsafe"

// The overlay's patched runtime/select.go calls this hook (before any channel
// lock is taken) when a select statement executed inside the bubble finds more
// than one ready case: which one is taken is an environment choice of the
// execution (default 0 = first ready case in compiled order).
//
//go:linkname runtimeSelectHook runtime.verifSelectHook
var runtimeSelectHook func(nready int) int

// SelectChoices counts how often a select had more than one ready case.
var SelectChoices int64

func init() {
	runtimeSelectHook = func(n int) int {
		t := Cur()
		if t == nil || t.root {
			return 0
		}
		s := t.S
		if s.dead.Load() {
			return 0
		}
		s.mu.Lock()
		defer s.mu.Unlock()
		labels := make([]string, n)
		for i := range labels {
			labels[i] = "select(" + t.ID + ")=" + string(rune('0'+i))
		}
		return s.choose(Step{Kind: KindData, N: n, Labels: labels})
	}
}
