// mkoverlay generates a `go build -overlay` file that maps the sources of the
// bisquitt packages under exploration to instrumented copies:
//   - imports of time, sync, sync/atomic are redirected to the verif shims,
//   - `go` statements become vsched.Go calls (deterministic thread ids),
//   - a vsched.Point is inserted before statements touching listed
//     unsynchronised fields,
//   - x/sync/errgroup is replaced by a copy that spawns through vsched.Go,
//   - export files (package-private access for the harness) are added.
//
// The copies are regenerated from /repo's current working tree on every run.
package main

import (
	"bytes"
	"encoding/json"
	"flag"
	"fmt"
	"go/ast"
	"go/parser"
	"go/printer"
	"go/token"
	"os"
	"path/filepath"
	"sort"
	"strconv"
	"strings"
)

var shimFor = map[string]string{
	"time":        "verif/mc/shim/vtime",
	"sync":        "verif/mc/shim/vsync",
	"sync/atomic": "verif/mc/shim/vatomic",
}

func die(code int, f string, a ...any) {
	fmt.Fprintf(os.Stderr, "mkoverlay: "+f+"\n", a...)
	os.Exit(code)
}

func shimExports(mcdir, imp string) map[string]bool {
	dir := filepath.Join(mcdir, strings.TrimPrefix(imp, "verif/mc/"))
	fset := token.NewFileSet()
	pkgs, err := parser.ParseDir(fset, dir, nil, 0)
	if err != nil {
		die(2, "parse shim %s: %v", dir, err)
	}
	out := map[string]bool{}
	for _, p := range pkgs {
		for _, f := range p.Files {
			for _, d := range f.Decls {
				switch d := d.(type) {
				case *ast.FuncDecl:
					if d.Recv == nil {
						out[d.Name.Name] = true
					}
				case *ast.GenDecl:
					for _, s := range d.Specs {
						switch s := s.(type) {
						case *ast.TypeSpec:
							out[s.Name.Name] = true
						case *ast.ValueSpec:
							for _, n := range s.Names {
								out[n.Name] = true
							}
						}
					}
				}
			}
		}
	}
	return out
}

type racy map[string]map[string]bool // pkg -> field set

func loadRacy(path string) racy {
	r := racy{}
	b, err := os.ReadFile(path)
	if err != nil {
		return r
	}
	for _, l := range strings.Split(string(b), "\n") {
		l = strings.TrimSpace(l)
		if l == "" || strings.HasPrefix(l, "#") {
			continue
		}
		f := strings.Fields(l)
		if len(f) < 2 {
			continue
		}
		if r[f[0]] == nil {
			r[f[0]] = map[string]bool{}
		}
		r[f[0]][f[1]] = true
	}
	return r
}

func main() {
	repo := flag.String("repo", "/repo", "bisquitt tree")
	mcdir := flag.String("mc", "/verif/mc", "harness module dir")
	out := flag.String("out", "", "output dir (outside the module tree)")
	pkgsFlag := flag.String("pkgs", "gateway,client,transactions,util", "packages to instrument")
	noRacy := flag.Bool("no-field-points", false, "do not insert points at racy fields")
	plain := flag.Bool("plain", false, "only add export files and errgroup (no shims): for the race pass")
	goroot := flag.String("goroot", "/opt/veriftools/go1.26.8", "GOROOT of the toolchain the harness is built with (runtime/select.go is patched)")
	flag.Parse()
	if *out == "" {
		die(2, "-out required")
	}
	os.MkdirAll(*out, 0o755)
	replace := map[string]string{}
	exports := map[string]map[string]bool{}
	for std, shim := range shimFor {
		exports[std] = shimExports(*mcdir, shim)
	}
	rc := loadRacy(filepath.Join(*mcdir, "racy_fields.txt"))
	if *noRacy {
		rc = racy{}
	}
	for _, pkg := range strings.Split(*pkgsFlag, ",") {
		dir := filepath.Join(*repo, pkg)
		ents, err := os.ReadDir(dir)
		if err != nil {
			die(2, "read %s: %v", dir, err)
		}
		for _, e := range ents {
			name := e.Name()
			if !strings.HasSuffix(name, ".go") || strings.HasSuffix(name, "_test.go") {
				continue
			}
			src := filepath.Join(dir, name)
			dst := filepath.Join(*out, pkg+"__"+name)
			changed, err := rewrite(src, dst, exports, rc[pkg], *plain)
			if err != nil {
				die(2, "%s: %v", src, err)
			}
			if changed {
				replace[src] = dst
			}
		}
		// export files
		exdir := filepath.Join(*mcdir, "exports", pkg)
		if ex, err := os.ReadDir(exdir); err == nil {
			for _, e := range ex {
				if strings.HasSuffix(e.Name(), ".go.txt") {
					b, _ := os.ReadFile(filepath.Join(exdir, e.Name()))
					dst := filepath.Join(*out, pkg+"__export__"+strings.TrimSuffix(e.Name(), ".txt"))
					os.WriteFile(dst, b, 0o644)
					replace[filepath.Join(dir, "zz_verif_"+strings.TrimSuffix(e.Name(), ".txt"))] = dst
				}
			}
		}
	}
	// (also in plain mode: vsched links against the hook variable; outside a bubble the patch is inert)
	if err := patchSelect(*goroot, *out, replace); err != nil {
		die(2, "runtime select patch: %v", err)
	}
	js, _ := json.MarshalIndent(map[string]any{"Replace": replace}, "", " ")
	if err := os.WriteFile(filepath.Join(*out, "overlay.json"), js, 0o644); err != nil {
		die(2, "%v", err)
	}
	keys := make([]string, 0, len(replace))
	for k := range replace {
		keys = append(keys, k)
	}
	sort.Strings(keys)
	fmt.Printf("overlay: %d files -> %s\n", len(keys), filepath.Join(*out, "overlay.json"))
}

func rewrite(src, dst string, exports map[string]map[string]bool, fields map[string]bool, plain bool) (bool, error) {
	fset := token.NewFileSet()
	raw, err := os.ReadFile(src)
	if err != nil {
		return false, err
	}
	// comments are dropped (their placement does not survive the rewrite);
	// build constraints are preserved textually
	var constraints []string
	for _, l := range strings.Split(string(raw), "\n") {
		t := strings.TrimSpace(l)
		if strings.HasPrefix(t, "package ") {
			break
		}
		if strings.HasPrefix(t, "//go:build") || strings.HasPrefix(t, "// +build") {
			constraints = append(constraints, t)
		}
	}
	f, err := parser.ParseFile(fset, src, raw, 0)
	if err != nil {
		return false, err
	}
	changed := false
	local := map[string]string{} // local name -> std import path
	if !plain {
		for _, im := range f.Imports {
			p, _ := strconv.Unquote(im.Path.Value)
			shim, ok := shimFor[p]
			if !ok {
				continue
			}
			name := filepath.Base(p)
			if im.Name != nil {
				name = im.Name.Name
			}
			local[name] = p
			im.Name = ast.NewIdent(name)
			im.Path.Value = strconv.Quote(shim)
			changed = true
		}
		// every selector taken from a redirected package must exist in the shim
		var missing []string
		ast.Inspect(f, func(n ast.Node) bool {
			if se, ok := n.(*ast.SelectorExpr); ok {
				if id, ok := se.X.(*ast.Ident); ok && id.Obj == nil {
					if std, ok := local[id.Name]; ok && !exports[std][se.Sel.Name] {
						missing = append(missing, std+"."+se.Sel.Name)
					}
				}
			}
			return true
		})
		if len(missing) > 0 {
			return false, fmt.Errorf("shim lacks %v: extend /verif/mc/shim", missing)
		}
	}
	needSched := false
	// go statements -> vsched.Go
	ast.Inspect(f, func(n ast.Node) bool {
		var lists []*[]ast.Stmt
		switch b := n.(type) {
		case *ast.BlockStmt:
			lists = append(lists, &b.List)
		case *ast.CaseClause:
			lists = append(lists, &b.Body)
		case *ast.CommClause:
			lists = append(lists, &b.Body)
		}
		for _, lp := range lists {
			var nl []ast.Stmt
			for _, st := range *lp {
				if !plain && len(fields) > 0 && touches(st, fields) != "" {
					nl = append(nl, pointStmt("field:"+touches(st, fields)))
					needSched = true
					changed = true
				}
				if g, ok := st.(*ast.GoStmt); ok {
					var fn ast.Expr
					if fl, ok := g.Call.Fun.(*ast.FuncLit); ok && len(g.Call.Args) == 0 {
						fn = fl
					} else {
						fn = &ast.FuncLit{
							Type: &ast.FuncType{Params: &ast.FieldList{}},
							Body: &ast.BlockStmt{List: []ast.Stmt{&ast.ExprStmt{X: g.Call}}},
						}
					}
					st = &ast.ExprStmt{X: &ast.CallExpr{
						Fun:  &ast.SelectorExpr{X: ast.NewIdent("vsched"), Sel: ast.NewIdent("Go")},
						Args: []ast.Expr{fn},
					}}
					needSched = true
					changed = true
				}
				nl = append(nl, st)
			}
			*lp = nl
		}
		return true
	})
	if !changed {
		return false, nil
	}
	if needSched {
		addImport(f, "verif/mc/vsched")
	}
	var buf bytes.Buffer
	for _, c := range constraints {
		buf.WriteString(c + "\n")
	}
	if len(constraints) > 0 {
		buf.WriteString("\n")
	}
	if err := printer.Fprint(&buf, token.NewFileSet(), f); err != nil {
		return false, err
	}
	return true, os.WriteFile(dst, buf.Bytes(), 0o644)
}

func addImport(f *ast.File, path string) {
	spec := &ast.ImportSpec{Path: &ast.BasicLit{Kind: token.STRING, Value: strconv.Quote(path)}}
	decl := &ast.GenDecl{Tok: token.IMPORT, Specs: []ast.Spec{spec}}
	f.Decls = append([]ast.Decl{decl}, f.Decls...)
}

func pointStmt(label string) ast.Stmt {
	return &ast.ExprStmt{X: &ast.CallExpr{
		Fun:  &ast.SelectorExpr{X: ast.NewIdent("vsched"), Sel: ast.NewIdent("Point")},
		Args: []ast.Expr{&ast.BasicLit{Kind: token.STRING, Value: strconv.Quote(label)}},
	}}
}

// touches reports the first listed field mentioned by the statement's own
// expressions (nested blocks and function literals are handled on their own).
func touches(st ast.Stmt, fields map[string]bool) string {
	found := ""
	ast.Inspect(st, func(n ast.Node) bool {
		if found != "" {
			return false
		}
		switch x := n.(type) {
		case *ast.BlockStmt:
			if ast.Node(x) != ast.Node(st) {
				return false
			}
		case *ast.FuncLit:
			return false
		case *ast.CaseClause, *ast.CommClause:
			return false
		case *ast.SelectorExpr:
			if fields[x.Sel.Name] {
				found = x.Sel.Name
				return false
			}
		}
		return true
	})
	return found
}

// patchSelect makes the runtime's select deterministic inside a synctest bubble
// and lets the scheduler decide which of several ready cases is taken: Go picks
// pseudo-randomly among ready cases, which is nondeterminism the explorer has
// to own.  Cases are polled in their compiled order by default; when more than
// one case is ready the hook (vsched) records an environment choice.
func patchSelect(goroot, out string, replace map[string]string) error {
	src := filepath.Join(goroot, "src", "runtime", "select.go")
	b, err := os.ReadFile(src)
	if err != nil {
		return err
	}
	s := string(b)
	old1 := "\t\tj := cheaprandn(uint32(norder + 1))\n"
	new1 := "\t\tj := cheaprandn(uint32(norder + 1))\n\t\tif gp.bubble != nil && verifSelectHook != nil {\n\t\t\tj = uint32(norder)\n\t\t}\n"
	old2 := "\tpollorder = pollorder[:norder]\n\tlockorder = lockorder[:norder]\n"
	new2 := old2 + `
	if gp.bubble != nil && verifSelectHook != nil && norder > 1 {
		var ready [16]uint16
		n := 0
		for k := 0; k < norder && n < len(ready); k++ {
			casi := int(pollorder[k])
			c := scases[casi].c
			var r bool
			if casi >= nsends {
				r = c.qcount > 0 || c.closed != 0 || c.sendq.first != nil
			} else {
				r = c.closed != 0 || c.recvq.first != nil || c.qcount < c.dataqsiz
			}
			if r {
				ready[n] = uint16(k)
				n++
			}
		}
		if n > 1 {
			if pick := verifSelectHook(n); pick > 0 && pick < n {
				k := int(ready[pick])
				v := pollorder[k]
				copy(pollorder[1:k+1], pollorder[:k])
				pollorder[0] = v
			}
		}
	}
`
	if strings.Count(s, old1) != 1 || strings.Count(s, old2) != 1 {
		return fmt.Errorf("%s does not look as expected (toolchain changed?)", src)
	}
	s = strings.Replace(s, old1, new1, 1)
	s = strings.Replace(s, old2, new2, 1)
	s += "\n// verifSelectHook is set by verif/mc/vsched (linkname).\n//\n//go:linkname verifSelectHook\nvar verifSelectHook func(nready int) int\n"
	dst := filepath.Join(out, "runtime__select.go")
	if err := os.WriteFile(dst, []byte(s), 0o644); err != nil {
		return err
	}
	replace[src] = dst
	return nil
}
