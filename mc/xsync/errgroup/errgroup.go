// Package errgroup: copy of golang.org/x/sync/errgroup (v0.0.0-20210220032951)
// whose goroutines are spawned through vsched.Go so that they get deterministic
// thread ids under the cooperative scheduler.  Behaviour is otherwise identical.
package errgroup

import (
	"context"
	"sync"

	"verif/mc/vsched"
)

type Group struct {
	cancel func()

	wg sync.WaitGroup

	errOnce sync.Once
	err     error
}

func WithContext(ctx context.Context) (*Group, context.Context) {
	ctx, cancel := context.WithCancel(ctx)
	return &Group{cancel: cancel}, ctx
}

func (g *Group) Wait() error {
	g.wg.Wait()
	if g.cancel != nil {
		g.cancel()
	}
	return g.err
}

func (g *Group) Go(f func() error) {
	g.wg.Add(1)

	vsched.Go(func() {
		defer g.wg.Done()

		if err := f(); err != nil {
			g.errOnce.Do(func() {
				g.err = err
				if g.cancel != nil {
					g.cancel()
				}
			})
		}
	})
}
