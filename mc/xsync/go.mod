module golang.org/x/sync

go 1.16
