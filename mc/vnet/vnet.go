// Package vnet provides in-memory net.Conn pairs whose blocking reads, read
// deadlines and writes are scheduling points / virtual timers of vsched.
package vnet

import (
	"io"
	"net"
	"sync"
	"time"

	"verif/mc/vsched"
)

type addr string

func (a addr) Network() string { return "vnet" }
func (a addr) String() string  { return string(a) }

type timeoutErr struct{}

func (timeoutErr) Error() string   { return "vnet: i/o timeout" }
func (timeoutErr) Timeout() bool   { return true }
func (timeoutErr) Temporary() bool { return true }

var ErrTimeout net.Error = timeoutErr{}

type closedErr struct{}

func (closedErr) Error() string   { return "vnet: use of closed connection" }
func (closedErr) Timeout() bool   { return false }
func (closedErr) Temporary() bool { return false }

// Rec is one write as seen by the peer.
type Rec struct {
	At   time.Duration // virtual time since vsched.Epoch
	Data []byte
}

// pipe is one direction.
type pipe struct {
	mu      sync.Mutex
	chunks  [][]byte
	off     int  // offset into chunks[0] (stream mode)
	wclosed bool // writer closed: EOF after drain
	waiter  chan int
	stalled bool     // the reader has stopped reading and the buffers are full: writes block
	wwaiter chan int // a writer blocked by the stall
	Log     []Rec // everything ever written
	// Filter, if set, decides the fate of each written chunk (link faults):
	// it returns the list of chunks to deliver instead.
	Filter func(b []byte) [][]byte
}

const (
	wakeData = iota
	wakeTimeout
	wakeClosed
)

func (p *pipe) signal(v int) {
	if p.waiter != nil {
		select {
		case p.waiter <- v:
		default:
		}
	}
}

// Conn is one end of a bidirectional in-memory connection.
type Conn struct {
	Name     string
	Stream   bool
	rx, tx   *pipe
	peer     *Conn
	closed   bool
	Closes   int
	ClosedAt time.Duration
	rdl      time.Time
	wdl      time.Time
	// WriteErr, if set, is returned by every Write of the owner (the peer has become unreachable: sends
	// fail at once, e.g. ENETUNREACH, while reads still work).
	WriteErr error
	// Responder, if set, is called with every chunk the owner writes; what it
	// returns becomes readable by the owner at once (a peer that answers
	// immediately: the reply can overtake the writer's next step).
	Responder func(written []byte) [][]byte
}

// Pair returns the two ends of a connection.  stream selects byte-stream
// semantics (TCP-like) instead of datagram semantics.
func Pair(name string, stream bool) (*Conn, *Conn) {
	a2b, b2a := &pipe{}, &pipe{}
	a := &Conn{Name: name + ".a", Stream: stream, rx: b2a, tx: a2b}
	b := &Conn{Name: name + ".b", Stream: stream, rx: a2b, tx: b2a}
	a.peer, b.peer = b, a
	return a, b
}

func (c *Conn) Peer() *Conn { return c.peer }

func sched() *vsched.Sched {
	if t := vsched.Cur(); t != nil {
		return t.S
	}
	return nil
}

func (c *Conn) Read(b []byte) (int, error) {
	s := sched()
	for {
		c.rx.mu.Lock()
		if c.closed {
			c.rx.mu.Unlock()
			return 0, closedErr{}
		}
		avail := len(c.rx.chunks) > 0
		eof := c.rx.wclosed
		atChunkStart := c.rx.off == 0
		c.rx.mu.Unlock()
		if avail || eof {
			if atChunkStart {
				vsched.Point("read:" + c.Name)
			}
			c.rx.mu.Lock()
			if c.closed {
				c.rx.mu.Unlock()
				return 0, closedErr{}
			}
			if len(c.rx.chunks) == 0 {
				if c.rx.wclosed {
					c.rx.mu.Unlock()
					return 0, io.EOF
				}
				c.rx.mu.Unlock()
				continue
			}
			head := c.rx.chunks[0]
			var n int
			if c.Stream {
				n = copy(b, head[c.rx.off:])
				c.rx.off += n
				if c.rx.off >= len(head) {
					c.rx.chunks = c.rx.chunks[1:]
					c.rx.off = 0
				}
			} else {
				n = copy(b, head)
				c.rx.chunks = c.rx.chunks[1:]
			}
			c.rx.mu.Unlock()
			return n, nil
		}
		// block until data, close or deadline
		if s == nil {
			panic("vnet: blocking read outside a scheduler")
		}
		w := make(chan int, 1)
		c.rx.mu.Lock()
		c.rx.waiter = w
		c.rx.mu.Unlock()
		var tm *vsched.Timer
		if !c.rdl.IsZero() {
			if !c.rdl.After(s.Now()) {
				c.rx.mu.Lock()
				c.rx.waiter = nil
				c.rx.mu.Unlock()
				return 0, ErrTimeout
			}
			tm = s.AddTimerAt(c.rdl, nil, func() {
				select {
				case w <- wakeTimeout:
				default:
				}
			}, true)
		}
		r := <-w
		c.rx.mu.Lock()
		c.rx.waiter = nil
		c.rx.mu.Unlock()
		if tm != nil {
			tm.Stop()
		}
		if r == wakeTimeout {
			return 0, ErrTimeout
		}
	}
}

func (c *Conn) Write(b []byte) (int, error) {
	vsched.Point("write:" + c.Name)
	if c.closed {
		return 0, closedErr{}
	}
	if c.WriteErr != nil {
		return 0, c.WriteErr
	}
	// a stalled peer: block until the write deadline (timeout error, nothing written), the end of the stall or Close
	for {
		c.tx.mu.Lock()
		stalled := c.tx.stalled
		c.tx.mu.Unlock()
		if !stalled {
			break
		}
		s := sched()
		if s == nil {
			panic("vnet: blocking write outside a scheduler")
		}
		if !c.wdl.IsZero() && !c.wdl.After(s.Now()) {
			return 0, ErrTimeout
		}
		w := make(chan int, 1)
		c.tx.mu.Lock()
		c.tx.wwaiter = w
		c.tx.mu.Unlock()
		var tm *vsched.Timer
		if !c.wdl.IsZero() {
			tm = s.AddTimerAt(c.wdl, nil, func() {
				select {
				case w <- wakeTimeout:
				default:
				}
			}, true)
		}
		r := <-w
		c.tx.mu.Lock()
		c.tx.wwaiter = nil
		c.tx.mu.Unlock()
		if tm != nil {
			tm.Stop()
		}
		if r == wakeTimeout {
			return 0, ErrTimeout
		}
		if c.closed {
			return 0, closedErr{}
		}
	}
	cp := append([]byte(nil), b...)
	var at time.Duration
	if s := sched(); s != nil {
		at = s.Now().Sub(vsched.Epoch)
	}
	p := c.tx
	p.mu.Lock()
	p.Log = append(p.Log, Rec{At: at, Data: cp})
	filter := p.Filter
	p.mu.Unlock()
	deliver := [][]byte{cp}
	if filter != nil {
		deliver = filter(cp)
	}
	p.mu.Lock()
	if !p.wclosed && !c.peer.closed {
		p.chunks = append(p.chunks, deliver...)
		if len(deliver) > 0 {
			p.signal(wakeData)
		}
	}
	p.mu.Unlock()
	if c.Responder != nil {
		for _, r := range c.Responder(cp) {
			c.Inject(r)
		}
	}
	return len(b), nil
}

func (c *Conn) Close() error {
	vsched.Point("close:" + c.Name)
	c.Closes++
	if c.closed {
		return closedErr{}
	}
	if s := sched(); s != nil {
		c.ClosedAt = s.Now().Sub(vsched.Epoch)
	}
	c.rx.mu.Lock()
	c.closed = true
	c.rx.signal(wakeClosed)
	c.rx.mu.Unlock()
	c.tx.mu.Lock()
	c.tx.wclosed = true
	c.tx.signal(wakeClosed)
	if c.tx.wwaiter != nil {
		select {
		case c.tx.wwaiter <- wakeClosed:
		default:
		}
	}
	c.tx.mu.Unlock()
	return nil
}

// SetWriteStall makes the owner's writes block (true) as if the peer had
// stopped reading and every buffer were full, or lets them through again (false).
func (c *Conn) SetWriteStall(on bool) {
	c.tx.mu.Lock()
	c.tx.stalled = on
	if !on && c.tx.wwaiter != nil {
		select {
		case c.tx.wwaiter <- wakeData:
		default:
		}
	}
	c.tx.mu.Unlock()
}

func (c *Conn) IsClosed() bool { return c.closed }

func (c *Conn) LocalAddr() net.Addr                { return addr(c.Name) }
func (c *Conn) RemoteAddr() net.Addr               { return addr(c.peer.Name) }
func (c *Conn) SetDeadline(t time.Time) error      { c.rdl, c.wdl = t, t; return nil }
func (c *Conn) SetReadDeadline(t time.Time) error  { c.rdl = t; return nil }
func (c *Conn) SetWriteDeadline(t time.Time) error { c.wdl = t; return nil }

// ---- driver side (root goroutine) ----

// Inject makes b readable by this conn's owner as if the peer had written it.
func (c *Conn) Inject(b []byte) {
	p := c.rx
	p.mu.Lock()
	p.chunks = append(p.chunks, append([]byte(nil), b...))
	p.signal(wakeData)
	p.mu.Unlock()
}

// InjectEOF makes the owner's reads return io.EOF after the queue drains.
func (c *Conn) InjectEOF() {
	p := c.rx
	p.mu.Lock()
	p.wclosed = true
	p.signal(wakeClosed)
	p.mu.Unlock()
}

// Sent returns everything the owner has written so far.
func (c *Conn) Sent() []Rec {
	c.tx.mu.Lock()
	defer c.tx.mu.Unlock()
	return c.tx.Log
}

// TakeUnread removes and returns chunks written by the owner that the peer has
// not read (used when the peer is the driver rather than real code).
func (c *Conn) TakeUnread() [][]byte {
	c.tx.mu.Lock()
	defer c.tx.mu.Unlock()
	out := c.tx.chunks
	c.tx.chunks = nil
	c.tx.off = 0
	return out
}

// SetFilter installs a link-fault filter on what the owner writes.
func (c *Conn) SetFilter(f func(b []byte) [][]byte) { c.tx.Filter = f }

// PendingRx is the number of chunks waiting to be read by the owner.
func (c *Conn) PendingRx() int {
	c.rx.mu.Lock()
	defer c.rx.mu.Unlock()
	return len(c.rx.chunks)
}
