package clc

import (
	"fmt"
	"strings"
	"testing"

	"verif/mc/explore"
	"verif/mc/harness/cl"
	"verif/mc/ref/refsn"
	"verif/mc/vsched"
)

// ---- C06 (client-library side): exchanges started by each side never interfere -------
//
// A call of the application (Publish QoS 1/2, Subscribe, Register) and an
// exchange started by the gateway (PUBLISH QoS 1/2, REGISTER) use the same
// message id.  Every interleaving of their steps is executed on the real
// client; every step must produce what it produces when its exchange runs
// alone, the call must return nil and the handler must run exactly once.

type c06step struct {
	name  string
	api   func(c *cl.CL) error // start of the application's call (nil: a datagram from the gateway)
	dgram func(mid uint16) refsn.Pkt
	want  byte // type of the datagram the client must send in this step (0: none)
}

type c06x struct {
	name    string
	steps   []c06step
	deliver bool // the gateway-started exchange delivers one message to the handler
}

func c06client() []c06x {
	short := uint16('x')<<8 | 'y'
	return []c06x{
		{name: "Publish q1", steps: []c06step{
			{name: "Publish(xy,q1)", api: func(c *cl.CL) error { return c.C.Publish("zz", []byte("m"), 1, false) }, want: refsn.PUBLISH},
			{name: "G:PUBACK", dgram: func(m uint16) refsn.Pkt { return refsn.Pkt{Type: refsn.PUBACK, TopicID: short, MsgID: m} }}}},
		{name: "Publish q2", steps: []c06step{
			{name: "Publish(zz,q2)", api: func(c *cl.CL) error { return c.C.Publish("zz", []byte("m"), 2, false) }, want: refsn.PUBLISH},
			{name: "G:PUBREC", dgram: func(m uint16) refsn.Pkt { return refsn.Pkt{Type: refsn.PUBREC, MsgID: m} }, want: refsn.PUBREL},
			{name: "G:PUBCOMP", dgram: func(m uint16) refsn.Pkt { return refsn.Pkt{Type: refsn.PUBCOMP, MsgID: m} }}}},
		{name: "Subscribe", steps: []c06step{
			{name: "Subscribe(s/1)", api: func(c *cl.CL) error { return c.C.Subscribe("s/1", 1, c.Handler("s/1")) }, want: refsn.SUBSCRIBE},
			{name: "G:SUBACK", dgram: func(m uint16) refsn.Pkt { return refsn.Pkt{Type: refsn.SUBACK, TopicID: 9, MsgID: m, QoS: 1} }}}},
		{name: "Register", steps: []c06step{
			{name: "Register(r/9)", api: func(c *cl.CL) error { return c.C.Register("r/9") }, want: refsn.REGISTER},
			{name: "G:REGACK", dgram: func(m uint16) refsn.Pkt { return refsn.Pkt{Type: refsn.REGACK, TopicID: 7, MsgID: m} }}}},
	}
}

func c06gateway() []c06x {
	short := uint16('x')<<8 | 'y'
	return []c06x{
		{name: "gateway PUBLISH q2", deliver: true, steps: []c06step{
			{name: "G:PUBLISH(xy,q2)", dgram: func(m uint16) refsn.Pkt {
				return refsn.Pkt{Type: refsn.PUBLISH, TIT: 2, TopicID: short, MsgID: m, QoS: 2, Data: []byte("in")}
			}, want: refsn.PUBREC},
			{name: "G:PUBREL", dgram: func(m uint16) refsn.Pkt { return refsn.Pkt{Type: refsn.PUBREL, MsgID: m} }, want: refsn.PUBCOMP}}},
		{name: "gateway PUBLISH q1", deliver: true, steps: []c06step{
			{name: "G:PUBLISH(xy,q1)", dgram: func(m uint16) refsn.Pkt {
				return refsn.Pkt{Type: refsn.PUBLISH, TIT: 2, TopicID: short, MsgID: m, QoS: 1, Data: []byte("in")}
			}, want: refsn.PUBACK}}},
		{name: "gateway REGISTER", steps: []c06step{
			{name: "G:REGISTER(u/1)", dgram: func(m uint16) refsn.Pkt { return refsn.Pkt{Type: refsn.REGISTER, TopicID: 44, MsgID: m, Str: "u/1"} }, want: refsn.REGACK}}},
	}
}

func orders(na, nb int) [][]int {
	var out [][]int
	var rec func(cur []int, a, b int)
	rec = func(cur []int, a, b int) {
		if a == na && b == nb {
			out = append(out, append([]int(nil), cur...))
			return
		}
		if a < na {
			rec(append(cur, 0), a+1, b)
		}
		if b < nb {
			rec(append(cur, 1), a, b+1)
		}
	}
	rec(nil, 0, 0)
	return out
}

func runC06client(t *testing.T, cx, gx c06x, order []int) (out string, vs []explore.Violation, herr string) {
	res, _ := explore.Bubble(t, nil, func(s *vsched.Sched) (string, []explore.Violation) {
		s.NoChoice = true
		c := cl.New(s, c17cfg())
		connectAnd(c)
		c.Go("Subscribe xy", func() error { return c.C.Subscribe("xy", 2, c.Handler("xy")) }) // uses message id 1
		c.Take()
		c.SetResponder(nil) // from here on the gateway says only what the script says
		const mid = 2       // the id of the client's next call
		var log []string
		var v []explore.Violation
		var call *cl.Call
		broken := map[string]bool{}
		ia, ib := 0, 0
		for _, who := range order {
			x, i, whose := cx, &ia, "application-started"
			if who == 1 {
				x, i, whose = gx, &ib, "gateway-started"
			}
			st := x.steps[*i]
			*i++
			if st.api != nil {
				call = c.Go(st.name, func() error { return st.api(c) })
			} else {
				c.FromGateway(st.dgram(mid).Encode())
			}
			got := c.Take()
			var names []string
			ok := st.want == 0
			for _, o := range got {
				names = append(names, o.String())
				if o.Err == nil && o.P.Type == st.want && o.P.MsgID == mid {
					ok = true
				}
			}
			log = append(log, fmt.Sprintf("%s->%v", st.name, names))
			if st.api != nil && len(got) == 1 && got[0].Err == nil && got[0].P.MsgID != mid {
				return "", []explore.Violation{{Property: "C06", Sig: "harness:unexpected-message-id", Detail: fmt.Sprintf("the call used message id %d, the scenario assumes %d", got[0].P.MsgID, mid)}}
			}
			if !ok && !broken[x.name] {
				broken[x.name] = true
				other := gx.name
				if who == 1 {
					other = cx.name
				}
				v = append(v, explore.Violation{Property: "C06", Sig: fmt.Sprintf("client:%s exchange disturbed:%s:by=%s:at=%s", whose, x.name, other, st.name),
					Detail: fmt.Sprintf("client library, order %v: step %s of the %s exchange %q (message id %d) made the client send %v instead of %s while %q with the same message id is in progress", log, st.name, whose, x.name, mid, names, refsn.Names[st.want], other)})
			}
		}
		if len(s.Panics) > 0 {
			v = append(v, explore.Violation{Property: "C06", Sig: "client:panic", Detail: s.Panics[0]})
		}
		if len(v) == 0 {
			if call == nil || !call.Returned || call.Err != "" {
				r, e := false, ""
				if call != nil {
					r, e = call.Returned, call.Err
				}
				v = append(v, explore.Violation{Property: "C06", Sig: "client:application-started exchange disturbed:" + cx.name + ":by=" + gx.name + ":call-result",
					Detail: fmt.Sprintf("client library, order %v: all steps acknowledged, but %s returned=%t err=%q", log, cx.name, r, e)})
			}
			n := 0
			for _, d := range c.Deliv {
				if d.Payload == "in" {
					n++
				}
			}
			if want := map[bool]int{true: 1, false: 0}[gx.deliver]; n != want {
				v = append(v, explore.Violation{Property: "C06", Sig: fmt.Sprintf("client:gateway-started exchange disturbed:%s:by=%s:handler-runs=%d", gx.name, cx.name, n),
					Detail: fmt.Sprintf("client library, order %v: the gateway's message reached the handler %d times, want %d", log, n, want)})
			}
		}
		c.SetResponder(func(p refsn.Pkt, n int) [][]byte {
			if a := ack(p); a != nil {
				return [][]byte{a}
			}
			return nil
		})
		c.Finish()
		return strings.Join(log, ";"), v
	})
	return res.Outcome, res.Violations, res.HarnessErr
}

func TestC06client(t *testing.T) {
	rep := explore.NewReport("C06", "model_checking")
	runs, steps := 0, 0
	outs := map[string]bool{}
	var samples []any
	for _, cx := range c06client() {
		for _, gx := range c06gateway() {
			for _, o := range orders(len(cx.steps), len(gx.steps)) {
				out, vs, herr := runC06client(t, cx, gx, o)
				if herr != "" {
					rep.HarnessErr = herr
				}
				// determinism: the same interleaving again
				if out2, _, _ := runC06client(t, cx, gx, o); out2 != out {
					rep.HarnessErr = fmt.Sprintf("nondeterministic replay of %s || %s %v", cx.name, gx.name, o)
				}
				runs++
				steps += len(o)
				outs[cx.name+"|"+gx.name+"|"+out] = true
				rep.Add(vs...)
				if len(samples) < 3 {
					samples = append(samples, map[string]any{"application": cx.name, "gateway": gx.name, "order": o, "log": out})
				}
			}
		}
	}
	rep.Coverage["states"] = len(outs)
	rep.Coverage["transitions"] = steps
	rep.Coverage["traces_validated_against_impl"] = runs
	rep.Coverage["exhaustive"] = true
	rep.Coverage["samples"] = samples
	rep.Coverage["rule"] = "client-library side: for each pair (application call in {Publish q1, Publish q2, Subscribe, Register}) x (gateway-started exchange in {PUBLISH q2, PUBLISH q1, REGISTER}) using the same message id, every interleaving of their steps on the real client: each step makes the client send what it sends when its exchange runs alone, the call returns nil, the gateway's message reaches the handler exactly once"
	rep.Assumptions = []string{"client-library side: default schedule within a step, no timers"}
	rep.Finish()
}
