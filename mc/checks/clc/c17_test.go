package clc

import (
	"fmt"
	"strings"
	"testing"
	"time"

	"github.com/energomonitor/bisquitt/topics"

	"verif/mc/explore"
	"verif/mc/harness/cl"
	"verif/mc/ref/refsn"
	"verif/mc/vsched"
)

// ---- C17: client library QoS guarantees under loss ---------------------------------
//
// Fault enumeration: a scripted gateway answers every datagram of the client
// correctly by default; the deviations are "no answer" (request or reply lost)
// and "answer twice" (reply duplicated), chosen independently for every
// transmission; all patterns with at most N deviations are explored.

type c17flow struct {
	name  string
	call  func(c *cl.CL) error
	setup func(c *cl.CL) // after connect
	qos   int            // for publish flows
	kind  string         // publish subscribe register unsubscribe
}

func ack(p refsn.Pkt) []byte {
	switch p.Type {
	case refsn.CONNECT:
		return refsn.Pkt{Type: refsn.CONNACK}.Encode()
	case refsn.REGISTER:
		return refsn.Pkt{Type: refsn.REGACK, TopicID: 7, MsgID: p.MsgID}.Encode()
	case refsn.SUBSCRIBE:
		tid := uint16(0)
		if p.TIT == 0 && !strings.ContainsAny(p.Str, "+#") {
			tid = 9
		}
		return refsn.Pkt{Type: refsn.SUBACK, TopicID: tid, MsgID: p.MsgID, QoS: p.QoS}.Encode()
	case refsn.UNSUBSCRIBE:
		return refsn.Pkt{Type: refsn.UNSUBACK, MsgID: p.MsgID}.Encode()
	case refsn.PUBLISH:
		switch p.QoS {
		case 1:
			return refsn.Pkt{Type: refsn.PUBACK, TopicID: p.TopicID, MsgID: p.MsgID}.Encode()
		case 2:
			return refsn.Pkt{Type: refsn.PUBREC, MsgID: p.MsgID}.Encode()
		}
	case refsn.PUBREL:
		return refsn.Pkt{Type: refsn.PUBCOMP, MsgID: p.MsgID}.Encode()
	case refsn.PINGREQ:
		return refsn.Pkt{Type: refsn.PINGRESP}.Encode()
	case refsn.DISCONNECT:
		return refsn.Pkt{Type: refsn.DISCONNECT}.Encode()
	}
	return nil
}

func connectAnd(c *cl.CL) {
	c.SetResponder(func(p refsn.Pkt, n int) [][]byte {
		if a := ack(p); a != nil {
			return [][]byte{a}
		}
		return nil
	})
	c.Dial()
	c.Go("Connect", c.C.Connect)
}

func c17flows() []c17flow {
	reg := func(c *cl.CL) { c.Go("Register", func() error { return c.C.Register("r/1") }) }
	return []c17flow{
		{name: "Publish q1 registered", kind: "publish", qos: 1, setup: reg, call: func(c *cl.CL) error { return c.C.Publish("r/1", []byte("m"), 1, false) }},
		{name: "Publish q2 registered", kind: "publish", qos: 2, setup: reg, call: func(c *cl.CL) error { return c.C.Publish("r/1", []byte("m"), 2, true) }},
		{name: "Publish q1 short", kind: "publish", qos: 1, call: func(c *cl.CL) error { return c.C.Publish("xy", []byte("m"), 1, false) }},
		{name: "Publish q2 predefined", kind: "publish", qos: 2, call: func(c *cl.CL) error { return c.C.PublishPredefined(1, []byte("m"), 2, false) }},
		{name: "Publish q0 short", kind: "publish", qos: 0, call: func(c *cl.CL) error { return c.C.Publish("xy", []byte("m"), 0, false) }},
		{name: "Publish q-1 predefined", kind: "publish", qos: 3, call: func(c *cl.CL) error { return c.C.PublishPredefined(1, []byte("m"), 3, false) }},
		{name: "Subscribe q1", kind: "subscribe", call: func(c *cl.CL) error { return c.C.Subscribe("s/1", 1, c.Handler("s/1")) }},
		{name: "Subscribe q0 wildcard", kind: "subscribe", call: func(c *cl.CL) error { return c.C.Subscribe("s/#", 0, c.Handler("s/#")) }},
		{name: "Register", kind: "register", call: func(c *cl.CL) error { return c.C.Register("r/2") }},
		{name: "Unsubscribe", kind: "unsubscribe", call: func(c *cl.CL) error { return c.C.Unsubscribe("s/1") }},
	}
}

func c17cfg() cl.Config {
	cfg := cl.DefaultConfig()
	cfg.Predefined = topics.PredefinedTopics{"*": {1: "p/1"}}
	return cfg
}

type tx struct {
	p        refsn.Pkt
	answered bool
}

func runC17(t *testing.T, f c17flow, prefix []int) explore.ExecResult {
	res, _ := explore.Bubble(t, prefix, func(s *vsched.Sched) (string, []explore.Violation) {
		s.NoChoice = true
		c := cl.New(s, c17cfg())
		connectAnd(c)
		if f.setup != nil {
			f.setup(c)
		}
		c.Take()
		// the explored part: every transmission of the flow may be lost or answered twice
		var log []tx
		c.SetResponder(func(p refsn.Pkt, n int) [][]byte {
			a := ack(p)
			if a == nil {
				log = append(log, tx{p, false})
				return nil
			}
			switch s.Choose(3, "gateway answers "+p.Name()) {
			case 1: // lost (request or reply)
				log = append(log, tx{p, false})
				return nil
			case 2: // reply duplicated
				log = append(log, tx{p, true})
				return [][]byte{a, a}
			}
			log = append(log, tx{p, true})
			return [][]byte{a}
		})
		s.NoChoice = false
		call := c.Go(f.name, func() error { return f.call(c) })
		for i := 0; i < 12 && !call.Returned; i++ {
			if !s.FireNext() {
				break
			}
		}
		s.NoChoice = true
		var vs []explore.Violation
		add := func(sig, format string, a ...any) {
			vs = append(vs, explore.Violation{Property: "C17", Sig: f.kind + ":" + sig, Detail: fmt.Sprintf(f.name+": "+format, a...), Scenario: f.name})
		}
		var sb strings.Builder
		for _, x := range log {
			fmt.Fprintf(&sb, "%s(dup=%t,mid=%d)->%t;", x.p.Name(), x.p.DUP, x.p.MsgID, x.answered)
		}
		if len(s.Panics) > 0 {
			add("panic", "%s", s.Panics[0])
		} else if !call.Returned {
			add("call-does-not-return", "still blocked after all retry timers (transmissions %s)", sb.String())
		} else {
			// reference: acknowledged iff every step of the exchange got an answer within the budget
			budget := int(c.Cfg.RetryCount) + 1
			acked := true
			steps := map[byte][]tx{}
			var order []byte
			for _, x := range log {
				if _, ok := steps[x.p.Type]; !ok {
					order = append(order, x.p.Type)
				}
				steps[x.p.Type] = append(steps[x.p.Type], x)
			}
			if f.kind == "publish" && (f.qos == 0 || f.qos == 3) {
				acked = true
			} else {
				for _, ty := range order {
					ok := false
					for i, x := range steps[ty] {
						if i < budget && x.answered {
							ok = true
						}
					}
					acked = acked && ok
				}
				if f.kind == "publish" && f.qos == 2 && len(order) < 2 && acked {
					acked = false // never got to PUBREL
				}
			}
			if acked != (call.Err == "") {
				add(fmt.Sprintf("return-value:acked=%t", acked), "returned %q but the gateway acknowledged=%t (transmissions %s)", call.Err, acked, sb.String())
			}
			// every transmission of one step carries the same msg id; retransmissions of PUBLISH/SUBSCRIBE have DUP=1
			for _, ty := range order {
				for i, x := range steps[ty] {
					if x.p.MsgID != steps[ty][0].p.MsgID || string(x.p.Data) != string(steps[ty][0].p.Data) {
						add("retransmission-differs:"+x.p.Name(), "transmission %d differs from the original (%v vs %v)", i, x.p, steps[ty][0].p)
					}
					if (ty == refsn.PUBLISH || ty == refsn.SUBSCRIBE) && x.p.DUP != (i > 0) {
						add(fmt.Sprintf("dup-flag:%s:transmission>0=%t", x.p.Name(), i > 0), "transmission %d of %s has DUP=%t", i, x.p.Name(), x.p.DUP)
					}
					if i >= budget {
						add("more-transmissions-than-budget:"+x.p.Name(), "%d transmissions of %s, budget %d", len(steps[ty]), x.p.Name(), budget)
					}
				}
			}
		}
		out := sb.String() + "=>" + call.Err
		c.SetResponder(func(p refsn.Pkt, n int) [][]byte {
			if a := ack(p); a != nil {
				return [][]byte{a}
			}
			return nil
		})
		c.Finish()
		return out, vs
	})
	return res
}

// inbound QoS 2: two exchanges (message ids 5 and 6) whose PUBLISH (also duplicated) and PUBREL
// (also retransmitted, also after the exchange finished) datagrams arrive in every order
//
// named: the subscription is by name (topic id 9 from the SUBACK) and the application may unsubscribe while
// the exchanges are in progress; the PUBRELs must still be answered (the handler runs only for messages
// released before the Unsubscribe).
func runC17inbound(t *testing.T, depth int, named bool, prefix []int) explore.ExecResult {
	res, _ := explore.Bubble(t, prefix, func(s *vsched.Sched) (string, []explore.Violation) {
		s.NoChoice = true
		c := cl.New(s, c17cfg())
		connectAnd(c)
		topic, tit, tid := "xy", uint8(2), uint16('x')<<8|'y'
		if named {
			topic, tit, tid = "s/1", 0, 9
		}
		c.Go("Subscribe", func() error { return c.C.Subscribe(topic, 2, c.Handler(topic)) })
		c.Take()
		s.NoChoice = false
		unsubscribed := false
		releasedBeforeUnsub := map[uint16]bool{}
		ids := []uint16{5, 6}
		pubSent := map[uint16]bool{}
		rels := map[uint16]int{}
		// a message id can be used again for a NEW message (non-DUP PUBLISH with another payload) while the earlier
		// exchange under that id was abandoned or after it has finished: the new exchange delivers its own message
		cur := map[uint16]string{}       // payload of the current exchange under the id
		open := map[uint16]bool{}        // PUBLISH seen, not yet released
		newSent := map[uint16]bool{}     // the id was reused once
		wantDeliv := map[uint16][]string{}
		var vs []explore.Violation
		var hist []string
		add := func(sig, f string, a ...any) {
			vs = append(vs, explore.Violation{Property: "C17", Sig: "inbound-q2:" + sig, Detail: fmt.Sprintf("gateway sends %v: ", hist) + fmt.Sprintf(f, a...), Scenario: "inbound"})
		}
		for step := 0; step < depth && len(vs) == 0; step++ {
			type item struct {
				name string
				p    refsn.Pkt
			}
			var menu []item
			for _, id := range ids {
				pl := []byte(fmt.Sprintf("in%d", id))
				if cur[id] != "" {
					pl = []byte(cur[id])
				}
				if pubSent[id] && !newSent[id] && !named {
					menu = append(menu, item{fmt.Sprintf("PUBLISH-new-message(%d)", id), refsn.Pkt{Type: refsn.PUBLISH, TIT: tit, TopicID: tid, MsgID: id, QoS: 2, Data: []byte(fmt.Sprintf("new%d", id))}})
				}
				if !pubSent[id] {
					menu = append(menu, item{fmt.Sprintf("PUBLISH(%d)", id), refsn.Pkt{Type: refsn.PUBLISH, TIT: tit, TopicID: tid, MsgID: id, QoS: 2, Data: pl}})
				} else {
					if open[id] {
						menu = append(menu, item{fmt.Sprintf("PUBLISH-dup(%d)", id), refsn.Pkt{Type: refsn.PUBLISH, TIT: tit, TopicID: tid, MsgID: id, QoS: 2, DUP: true, Data: pl}})
					}
					menu = append(menu, item{fmt.Sprintf("PUBREL(%d)", id), refsn.Pkt{Type: refsn.PUBREL, MsgID: id}})
				}
			}
			if named && !unsubscribed {
				menu = append(menu, item{name: "application: Unsubscribe (acknowledged)"})
			}
			it := menu[s.Choose(len(menu), "gateway sends")]
			hist = append(hist, it.name)
			if it.p.Type == 0 {
				s.NoChoice = true
				call := c.Go("Unsubscribe", func() error { return c.C.Unsubscribe(topic) })
				s.NoChoice = false
				c.Take()
				unsubscribed = true
				if !call.Returned || call.Err != "" {
					add("unsubscribe-fails", "Unsubscribe returned=%t %q", call.Returned, call.Err)
				}
				continue
			}
			if it.p.Type == refsn.PUBREL && !unsubscribed && rels[it.p.MsgID] == 0 {
				releasedBeforeUnsub[it.p.MsgID] = true
			}
			switch {
			case it.p.Type == refsn.PUBLISH && !it.p.DUP:
				if pubSent[it.p.MsgID] {
					newSent[it.p.MsgID] = true
				}
				cur[it.p.MsgID], open[it.p.MsgID] = string(it.p.Data), true
			case it.p.Type == refsn.PUBREL && open[it.p.MsgID]:
				open[it.p.MsgID] = false
				if !named || !unsubscribed {
					wantDeliv[it.p.MsgID] = append(wantDeliv[it.p.MsgID], cur[it.p.MsgID])
				}
			}
			c.FromGateway(it.p.Encode())
			var got []string
			for _, o := range c.Take() {
				got = append(got, o.String())
			}
			want := refsn.Pkt{Type: refsn.PUBREC, MsgID: it.p.MsgID}
			if it.p.Type == refsn.PUBREL {
				rels[it.p.MsgID]++
				want = refsn.Pkt{Type: refsn.PUBCOMP, MsgID: it.p.MsgID}
			} else {
				pubSent[it.p.MsgID] = true
			}
			if len(s.Panics) > 0 {
				add("panic", "%s", s.Panics[0])
			} else if len(got) != 1 || got[0] != want.String() {
				kind := "publish-not-answered-with-pubrec"
				if it.p.Type == refsn.PUBREL {
					kind = fmt.Sprintf("pubrel-not-answered:finished-before=%t", rels[it.p.MsgID] > 1)
				}
				add(kind, "%s answered with %v, want exactly %s", it.name, got, want)
			}
		}
		for _, id := range ids {
			var got []string
			for _, d := range c.Deliv {
				if strings.HasSuffix(d.Payload, fmt.Sprint(id)) {
					got = append(got, d.Payload)
				}
			}
			// (a message released after the Unsubscribe is not delivered: the callback is no longer invoked, C27)
			if fmt.Sprint(got) != fmt.Sprint(wantDeliv[id]) && len(vs) == 0 {
				add(fmt.Sprintf("handler-runs=%d:want=%d", len(got), len(wantDeliv[id])), "message id %d: the handler got %v, want %v (one delivery per released exchange, of that exchange's own message; PUBRELs sent: %d)", id, got, wantDeliv[id], rels[id])
			}
		}
		_ = releasedBeforeUnsub
		out := fmt.Sprintf("%v deliv=%d", hist, len(c.Deliv))
		s.NoChoice = true
		c.Finish()
		return out, vs
	})
	return res
}

func TestC17(t *testing.T) {
	var scs []explore.Scenario
	for _, f := range c17flows() {
		f := f
		scs = append(scs, explore.Scenario{Name: f.name, Run: func(p []int) explore.ExecResult { return runC17(t, f, p) }})
	}
	depth := 6
	if explore.Tier() == "thorough" {
		depth = 8
	}
	inbound := []explore.Scenario{
		{Name: "inbound QoS 2: two exchanges, duplicated PUBLISH / retransmitted PUBREL in every order", Run: func(p []int) explore.ExecResult { return runC17inbound(t, depth, false, p) }},
		{Name: "inbound QoS 2 on a subscription by name, the application unsubscribes at any point", Run: func(p []int) explore.ExecResult { return runC17inbound(t, depth, true, p) }},
	}
	if explore.IsWorker() {
		explore.ServeScenarios(append(scs, inbound...))
		return
	}
	rep := explore.NewReport("C17", "fault_enumeration")
	if explore.RunScenarios(rep, scs, explore.ScenarioOpts{Test: "TestC17", QuickBound: 3, ThoroughFrom: 3, ThoroughMax: 6, Unbounded: true,
		QuickBudget: 90 * time.Second, ThoroughBudge: 6 * time.Minute}) {
		// the inbound flow is enumerated completely (every datagram order up to the depth), not deviation-bounded
		explore.RunScenarios(rep, inbound, explore.ScenarioOpts{Test: "TestC17", QuickBound: -1, ThoroughFrom: -1, ThoroughMax: -1,
			QuickBudget: 150 * time.Second, ThoroughBudge: 12 * time.Minute})
	}
	// fault_enumeration evidence uses the generic keys
	evals, _ := rep.Coverage["schedules"].(int)
	if se, ok := rep.Coverage["schedule_exploration"].(map[string]any); ok {
		n, _ := se["schedules"].(int)
		evals += n
	}
	rep.Coverage["evaluations"] = evals
	rep.Coverage["distinct_nontrivial"] = rep.Coverage["states"]
	rep.Coverage["rule"] = "for each API flow (Publish q1/q2 on registered, short and predefined topics, q0, q-1, Subscribe, Register, Unsubscribe; RetryCount 2, RetryDelay 1 s) against a scripted gateway: every transmission of the client is answered correctly (default), not answered (request or reply lost) or answered twice; all fault patterns with at most 3 deviations (thorough: up to 6, then all); plus two concurrent inbound QoS 2 exchanges whose PUBLISH (first and DUP copies) and PUBREL datagrams (retransmitted, also after completion, also after the other exchange finished) arrive in every order up to 6 (thorough 8) datagrams: each is answered by exactly one PUBREC/PUBCOMP with its id and each message reaches the handler once, also when a message id is used again for a new message (other payload) while the earlier exchange was abandoned or after it finished; the same on a subscription by name with an acknowledged Unsubscribe call at any point of the order (PUBRELs are still answered; the handler runs only for messages released before it); distinct_nontrivial = distinct (transmission log, return value) outcomes"
	rep.Assumptions = []string{"default schedule (fault choices only)", "a lost request and a lost reply are the same event for the client"}
	rep.Finish()
}
