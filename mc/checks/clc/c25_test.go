package clc

import (
	"fmt"
	"strings"
	"testing"
	"time"

	"verif/mc/explore"
	"verif/mc/harness/cl"
	"verif/mc/ref/refsn"
	"verif/mc/vsched"
)

// ---- C25 (client-library side): no packet sequence crashes the client ----------------
//
// BFS from several client states (fresh, connected, with a pending Publish q1 /
// q2 / Subscribe / Register / Ping / Sleep / Disconnect, awake between two sleep
// periods) over one datagram of every MQTT-SN message type from the gateway
// (message ids matching and not matching the pending exchange), undecodable
// datagrams and timer expiries.  Oracle: no goroutine of the client panics; the
// client continues or ends with an error.

type c25start struct {
	name  string
	setup func(c *cl.CL, s *vsched.Sched)
}

func c25starts() []c25start {
	silent := func(c *cl.CL) { c.SetResponder(nil) }
	pend := func(name string, f func(c *cl.CL) error) func(c *cl.CL, s *vsched.Sched) {
		return func(c *cl.CL, s *vsched.Sched) {
			connectAnd(c)
			silent(c)
			c.Go(name, func() error { return f(c) })
		}
	}
	return []c25start{
		{"fresh (dialled, not connected)", func(c *cl.CL, s *vsched.Sched) { silent(c); c.Dial() }},
		{"connecting", func(c *cl.CL, s *vsched.Sched) { silent(c); c.Dial(); c.Go("Connect", c.C.Connect) }},
		{"connected", func(c *cl.CL, s *vsched.Sched) { connectAnd(c); silent(c) }},
		// subscriptions with more and with fewer levels than the topics the gateway then registers and publishes on
		{"connected, subscribed s/a/b, w/#, p/+", func(c *cl.CL, s *vsched.Sched) {
			connectAnd(c)
			for _, f := range []string{"s/a/b", "w/#", "p/+"} {
				f := f
				c.Go("Subscribe "+f, func() error { return c.C.Subscribe(f, 1, c.Handler(f)) })
			}
			silent(c)
		}},
		{"pending Publish q1", pend("Publish q1", func(c *cl.CL) error { return c.C.Publish("xy", []byte("m"), 1, false) })},
		{"pending Publish q2", pend("Publish q2", func(c *cl.CL) error { return c.C.Publish("xy", []byte("m"), 2, false) })},
		{"pending Subscribe", pend("Subscribe", func(c *cl.CL) error { return c.C.Subscribe("s/1", 1, c.Handler("s/1")) })},
		{"pending Register", pend("Register", func(c *cl.CL) error { return c.C.Register("r/1") })},
		{"pending Ping", pend("Ping", func(c *cl.CL) error { return c.C.Ping() })},
		{"pending Sleep", pend("Sleep", func(c *cl.CL) error { return c.C.Sleep(3 * time.Second) })},
		{"pending Disconnect", pend("Disconnect", func(c *cl.CL) error { return c.C.Disconnect() })},
		{"awake between sleep periods", func(c *cl.CL, s *vsched.Sched) {
			connectAnd(c)
			sl := c.Go("Sleep(1s)", func() error { return c.C.Sleep(time.Second) })
			for i := 0; i < 6 && !sl.Returned; i++ {
				s.FireNext()
			}
			silent(c)
		}},
	}
}

func c25alphabet() []string {
	var a []string
	short := uint16('x')<<8 | 'y'
	for _, ty := range refsn.AllTypes {
		for _, mid := range []uint16{1, 9} {
			p := refsn.Pkt{Type: ty, MsgID: mid, TopicID: short, TIT: 2, HasFlags: true, Str: "t/1", Data: []byte("d"), Duration: 5, HasDur: ty == refsn.DISCONNECT && mid == 9, ProtoID: 1}
			switch ty {
			case refsn.PUBLISH:
				for _, q := range []uint8{0, 1, 2} {
					p.QoS = q
					a = append(a, cl.EvG(fmt.Sprintf("%s(q%d,mid %d)", refsn.Names[ty], q, mid), p.Encode()))
				}
				// a retransmission may be the first copy the client sees
				p.QoS, p.DUP = 2, true
				a = append(a, cl.EvG(fmt.Sprintf("%s(q2,DUP,mid %d)", refsn.Names[ty], mid), p.Encode()))
				continue
			case refsn.AUTH:
				p.Str, p.Data = "PLAIN", []byte("\x00u\x00p")
			}
			a = append(a, cl.EvG(fmt.Sprintf("%s(mid %d)", refsn.Names[ty], mid), p.Encode()))
			if ty == refsn.ADVERTISE || ty == refsn.SEARCHGW || ty == refsn.GWINFO || ty == refsn.PINGREQ || ty == refsn.PINGRESP || ty == refsn.CONNACK ||
				ty == refsn.WILLTOPICREQ || ty == refsn.WILLMSGREQ || ty == refsn.CONNECT || ty == refsn.AUTH || ty == refsn.WILLTOPIC || ty == refsn.WILLMSG {
				break // no message id in these: one variant
			}
		}
	}
	// the gateway registers parents and children of subscribed topics and publishes on them
	for i, name := range []string{"s/a", "s/a/b/c", "w", "p/x/y", "s//b"} {
		id := uint16(70 + i)
		a = append(a, cl.EvG(fmt.Sprintf("REGISTER(id %d,%s)", id, name), refsn.Pkt{Type: refsn.REGISTER, TopicID: id, MsgID: 4, Str: name}.Encode()),
			cl.EvG(fmt.Sprintf("PUBLISH(registered id %d)", id), refsn.Pkt{Type: refsn.PUBLISH, TIT: 0, TopicID: id, MsgID: 3, QoS: 0, HasFlags: true, Data: []byte("d")}.Encode()))
	}
	a = append(a,
		cl.EvG("PUBLISH(registered id 77 unknown)", refsn.Pkt{Type: refsn.PUBLISH, TIT: 0, TopicID: 77, MsgID: 3, QoS: 1, Data: []byte("d")}.Encode()),
		cl.EvG("PUBLISH(predefined 99 unknown)", refsn.Pkt{Type: refsn.PUBLISH, TIT: 1, TopicID: 99, MsgID: 3, QoS: 0, Data: []byte("d")}.Encode()),
		cl.EvG("PUBLISH(tit 3)", refsn.Pkt{Type: refsn.PUBLISH, TIT: 3, TopicID: 1, MsgID: 3, QoS: 0, Data: []byte("d")}.Encode()),
		cl.EvG("CONNACK(rejected)", refsn.Pkt{Type: refsn.CONNACK, RC: 1}.Encode()),
		cl.EvG("SUBACK(rejected, mid 1)", refsn.Pkt{Type: refsn.SUBACK, MsgID: 1, RC: 2}.Encode()),
		cl.EvG("REGACK(rejected, mid 1)", refsn.Pkt{Type: refsn.REGACK, MsgID: 1, RC: 2}.Encode()),
		cl.EvG("undecodable", []byte{0x05}),
		cl.EvG("empty datagram", []byte{}),
		cl.EvG("headerless", []byte{0x00, 0x00, 0x00}),
		cl.EvTimer,
	)
	return a
}

func runC25client(t *testing.T, st c25start, alphabet []string, depth int, hist []string) explore.StateResult {
	var out explore.StateResult
	res, _ := explore.Bubble(t, nil, func(s *vsched.Sched) (string, []explore.Violation) {
		s.NoChoice = true
		c := cl.New(s, c17cfg())
		st.setup(c, s)
		c.Take()
		for _, ev := range hist {
			body := ev[strings.LastIndex(ev, "|")+1:]
			c.ApplyBasic(body)
			if len(s.Panics) > 0 {
				break
			}
		}
		if len(s.Panics) > 0 {
			where := s.Panics[0]
			if i := strings.Index(where, "/repo/"); i >= 0 {
				where = where[i:]
				if j := strings.IndexAny(where, " |"); j > 0 {
					where = where[:j]
				}
			}
			last := "start"
			if len(hist) > 0 {
				last = cl.Label(hist[len(hist)-1])
			}
			out.Violations = []explore.Violation{{Property: "C25", Sig: "client-panic@" + where + ":on=" + strings.SplitN(last, "(", 2)[0], Detail: fmt.Sprintf("client library, start state %q: %s", st.name, s.Panics[0]), Scenario: st.name}}
			out.Key = "panic:" + strings.Join(hist, ",")
			out.Class = "panic"
		} else {
			out.Key = c.Snapshot() + fmt.Sprintf(" live=%d", s.Live())
			out.Class = fmt.Sprintf("live=%t", s.Live() > 0)
			if len(hist) < depth {
				out.Next = alphabet
			}
		}
		c.Take()
		c.SetResponder(func(p refsn.Pkt, n int) [][]byte {
			if a := ack(p); a != nil {
				return [][]byte{a}
			}
			return nil
		})
		c.Finish()
		return "", nil
	})
	if res.HarnessErr != "" {
		out.HarnessErr = res.HarnessErr
	}
	for i := range out.Violations {
		var h []string
		for _, e := range hist {
			h = append(h, cl.Label(e))
		}
		out.Violations[i].History = h
	}
	return out
}

func TestC25client(t *testing.T) {
	starts := c25starts()
	alphabet := c25alphabet()
	depth := 2
	if explore.Tier() == "thorough" {
		depth = 3
	}
	if explore.IsWorker() {
		by := map[string]c25start{}
		for _, st := range starts {
			by[st.name] = st
		}
		explore.Serve(func(name string, payload []byte) any {
			st := by[name]
			return explore.ServeBFS(payload, func(h []string) explore.StateResult { return runC25client(t, st, alphabet, depth, h) })
		})
		return
	}
	rep := explore.NewReport("C25", "model_checking")
	pool := explore.NewPool("TestC25client", explore.Workers())
	defer pool.Close()
	states, trans, validated := 0, 0, 0
	complete := true
	var samples []any
	for _, st := range starts {
		bst, viols := explore.BFSBatch(explore.BFSConfig{MaxDepth: depth, Workers: pool.N, ValidateEvery: 8, Deadline: rep.Budget(150*time.Second, 15*time.Minute)}, pool.BFSRunner(st.name))
		if bst.HarnessErr != "" {
			rep.HarnessErr = st.name + ": " + bst.HarnessErr
			break
		}
		rep.Add(viols...)
		states += bst.States
		trans += bst.Transitions
		validated += bst.Validated
		complete = complete && bst.Complete
		for _, h := range bst.Samples {
			if len(samples) < 6 {
				var l []string
				for _, e := range h {
					l = append(l, cl.Label(e))
				}
				samples = append(samples, map[string]any{"start": st.name, "history": l})
			}
		}
	}
	rep.Coverage["states"] = states
	rep.Coverage["transitions"] = trans
	rep.Coverage["traces_validated_against_impl"] = validated
	rep.Coverage["exhaustive"] = complete
	rep.Coverage["samples"] = samples
	rep.Coverage["rule"] = fmt.Sprintf("client-library side: BFS to depth %d from 11 client states (fresh, connecting, connected, pending Publish q1/q2, Subscribe, Register, Ping, Sleep, Disconnect, awake between sleep periods) over %d events: one datagram of every MQTT-SN message type from the gateway with message ids matching and not matching the pending exchange, PUBLISH at QoS 0-2, unknown registered/predefined ids, reserved topic id type, rejections, undecodable datagrams, timer expiries; oracle: no client goroutine panics", depth, len(alphabet))
	rep.Assumptions = []string{"client-library side: default schedule; panics are caught by the overlay's goroutine wrappers"}
	rep.Finish()
}
