package clc

import (
	"fmt"
	"strings"
	"testing"
	"time"

	"verif/mc/explore"
	"verif/mc/harness/cl"
	"verif/mc/ref/refsn"
	"verif/mc/vsched"
)

// ---- C23 (client-library side): every MQTT-SN datagram the client sends is well-formed ----
//
// Every API call with payloads / topic names / client ids / will data of the
// sizes that put the datagram at both sides of the one-octet / three-octet
// length form boundary and at the maximum, in the client states fresh,
// connected, awake; plus the replies the client writes on its own (REGACK,
// PUBACK, PUBREC, PUBCOMP, WILLTOPIC, WILLMSG, PINGREQ of the keep-alive loop
// and of the wake-up).  Every datagram: decodable by the reference decoder, a
// type a client may send, length field = size, canonical length form, <= 8192.

func c23check(o cl.Out) (sig, detail string) {
	switch {
	case len(o.Raw) > 8192:
		return "datagram-larger-than-8192", fmt.Sprintf("%d-byte datagram", len(o.Raw))
	case o.Err != nil:
		r := o.Raw
		if len(r) > 24 {
			r = r[:24]
		}
		return "undecodable-datagram", fmt.Sprintf("%x: %v", r, o.Err)
	case o.P.Length != len(o.Raw):
		return "length-field-differs-from-size:" + o.P.Name(), fmt.Sprintf("%s: length field %d, datagram size %d", o.P.Name(), o.P.Length, len(o.Raw))
	case (o.P.HdrLen == 2) != (len(o.Raw) <= 255):
		return "wrong-length-form:" + o.P.Name(), fmt.Sprintf("%s of %d bytes uses a %d-byte header", o.P.Name(), len(o.Raw), o.P.HdrLen)
	case !refsn.ClientMaySend(o.P.Type):
		return "type-invalid-for-direction:" + o.P.Name(), fmt.Sprintf("client sent %s to a gateway", o.P.Name())
	}
	return "", ""
}

var c23sizes = []int{0, 1, 246, 247, 248, 249, 250, 251, 252, 253, 254, 255, 256, 7168}

func runC23client(t *testing.T, state string, size int) (n int, outs []string, vs []explore.Violation, herr string) {
	res, _ := explore.Bubble(t, nil, func(s *vsched.Sched) (string, []explore.Violation) {
		s.NoChoice = true
		cfg := c17cfg()
		cfg.KeepAlive = 4 * time.Second
		cfg.Will = true
		if size > 0 && size <= 256 {
			cfg.ClientID = strings.Repeat("i", size) // (also longer than the 23 characters the specification allows)
		}
		c := cl.New(s, cfg)
		// a gateway that asks for the will data and sends REGISTER / PUBLISH q1,q2 / PUBREL of its own
		c.SetResponder(func(p refsn.Pkt, nth int) [][]byte {
			switch p.Type {
			case refsn.CONNECT:
				return [][]byte{refsn.Pkt{Type: refsn.WILLTOPICREQ}.Encode()}
			case refsn.WILLTOPIC:
				return [][]byte{refsn.Pkt{Type: refsn.WILLMSGREQ}.Encode()}
			case refsn.WILLMSG:
				return [][]byte{refsn.Pkt{Type: refsn.CONNACK}.Encode()}
			}
			if a := ack(p); a != nil {
				return [][]byte{a}
			}
			return nil
		})
		c.Dial()
		var v []explore.Violation
		seen := map[string]bool{}
		check := func(what string) {
			for _, o := range c.Take() {
				n++
				if sig, detail := c23check(o); sig != "" && !seen[sig] {
					seen[sig] = true
					v = append(v, explore.Violation{Property: "C23", Sig: "client:" + sig, Detail: fmt.Sprintf("client library, state %s, size %d, after %s: %s", state, size, what, detail)})
				}
				if o.Err == nil {
					outs = append(outs, fmt.Sprintf("%s/%d", o.P.Name(), len(o.Raw)))
				}
			}
		}
		if state != "fresh" {
			c.Go("Connect", c.C.Connect)
			check("Connect")
		}
		if state == "awake" {
			sl := c.Go("Sleep(1s)", func() error { return c.C.Sleep(time.Second) })
			for i := 0; i < 6 && !sl.Returned; i++ {
				s.FireNext()
			}
			check("Sleep")
		}
		name := "n/" + strings.Repeat("t", size)
		payload := []byte(strings.Repeat("p", size))
		calls := []struct {
			what string
			f    func() error
		}{
			{"Connect", c.C.Connect},
			{"Register", func() error { return c.C.Register(name) }},
			{"Subscribe(name)", func() error { return c.C.Subscribe(name, 1, c.Handler(name)) }},
			{"Subscribe(short)", func() error { return c.C.Subscribe("xy", 2, c.Handler("xy")) }},
			{"SubscribePredefined", func() error { return c.C.SubscribePredefined(1, 0, c.Handler("p/1")) }},
			{"Publish(short,q0)", func() error { return c.C.Publish("xy", payload, 0, false) }},
			{"Publish(short,q1)", func() error { return c.C.Publish("xy", payload, 1, true) }},
			{"Publish(short,q2)", func() error { return c.C.Publish("xy", payload, 2, false) }},
			{"Publish(registered,q1)", func() error { return c.C.Publish(name, payload, 1, false) }},
			{"PublishPredefined(q-1)", func() error { return c.C.PublishPredefined(1, payload, 3, false) }},
			{"Unsubscribe(name)", func() error { return c.C.Unsubscribe(name) }},
			{"UnsubscribePredefined", func() error { return c.C.UnsubscribePredefined(1) }},
			{"Ping", c.C.Ping},
		}
		for _, k := range calls {
			if state == "fresh" && k.what != "Connect" && k.what != "PublishPredefined(q-1)" {
				continue
			}
			if state == "awake" && k.what != "Connect" {
				continue
			}
			c.Go(k.what, k.f)
			check(k.what)
		}
		if c.C.VState().String() == "active" {
			// what the client writes on its own: answers to the gateway's requests and keep-alive pings
			short := uint16('x')<<8 | 'y'
			for _, d := range []refsn.Pkt{
				{Type: refsn.REGISTER, TopicID: 60, MsgID: 300, Str: "g/" + strings.Repeat("t", size)},
				{Type: refsn.PUBLISH, TIT: 2, TopicID: short, MsgID: 301, QoS: 1, Data: payload},
				{Type: refsn.PUBLISH, TIT: 2, TopicID: short, MsgID: 302, QoS: 2, Data: payload},
				{Type: refsn.PUBREL, MsgID: 302},
				{Type: refsn.PUBREL, MsgID: 999},
			} {
				c.FromGateway(d.Encode())
				check("gateway " + d.Name())
			}
			s.Advance(9 * time.Second)
			check("keep-alive period")
			sl := c.Go("Sleep(1s)", func() error { return c.C.Sleep(time.Second) })
			for i := 0; i < 6 && !sl.Returned; i++ {
				s.FireNext()
			}
			check("Sleep")
			c.Go("Disconnect", c.C.Disconnect)
			check("Disconnect")
		}
		if len(s.Panics) > 0 {
			v = append(v, explore.Violation{Property: "C23", Sig: "client:panic", Detail: s.Panics[0]})
		}
		c.Finish()
		return "", v
	})
	return n, outs, res.Violations, res.HarnessErr
}

func TestC23client(t *testing.T) {
	rep := explore.NewReport("C23", "model_checking")
	total, runs := 0, 0
	kinds := map[string]bool{}
	var samples []string
	for _, st := range []string{"fresh", "connected", "awake"} {
		for _, sz := range c23sizes {
			n, outs, vs, herr := runC23client(t, st, sz)
			if herr != "" {
				rep.HarnessErr = herr
			}
			n2, _, _, _ := runC23client(t, st, sz)
			if n2 != n {
				rep.HarnessErr = fmt.Sprintf("nondeterministic replay (state %s size %d): %d vs %d datagrams", st, sz, n, n2)
			}
			runs++
			total += n
			for _, o := range outs {
				kinds[o] = true
			}
			rep.Add(vs...)
			if sz == 250 && len(samples) < 3 {
				samples = append(samples, fmt.Sprintf("state %s, size %d: %v", st, sz, outs))
			}
		}
	}
	rep.Coverage["states"] = len(kinds)
	rep.Coverage["transitions"] = total
	rep.Coverage["traces_validated_against_impl"] = runs
	rep.Coverage["exhaustive"] = true
	rep.Coverage["samples"] = samples
	rep.Coverage["rule"] = "client-library side: in the client states fresh / connected / awake, every API call (Connect with will and client ids up to 256 bytes, Register, Subscribe by name / short / predefined, Publish at QoS 0,1,2,-1 on short, registered and predefined topics, Unsubscribe, Ping, Sleep, Disconnect) with payload and name sizes {0, 1, 246..256, 7168}, plus the datagrams the client writes on its own (REGACK, PUBACK, PUBREC, PUBCOMP also for an unknown id, WILLTOPIC, WILLMSG, keep-alive and wake-up PINGREQ): every datagram decodes with the reference decoder as a type a client may send, length field = size, canonical length form, size <= 8192; states = distinct (type, size) pairs written"
	rep.Assumptions = []string{"client-library side: default schedule"}
	rep.Finish()
}
