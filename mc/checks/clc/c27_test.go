package clc

import (
	"encoding/json"
	"fmt"
	"sort"
	"strings"
	"testing"

	"github.com/energomonitor/bisquitt/client"
	pkts1 "github.com/energomonitor/bisquitt/packets1"

	"verif/mc/explore"
	"verif/mc/harness/cl"
	"verif/mc/ref/refmatch"
	"verif/mc/ref/refsn"
	"verif/mc/vsched"
)

// ---- C27: client dispatch follows MQTT topic-filter matching ------------------------

func levelsUpTo(n int, alphabet []string) []string {
	var out []string
	var rec func(cur []string)
	rec = func(cur []string) {
		if len(cur) > 0 {
			out = append(out, strings.Join(cur, "/"))
		}
		if len(cur) == n {
			return
		}
		for _, a := range alphabet {
			rec(append(append([]string{}, cur...), a))
		}
	}
	rec(nil)
	return out
}

func c27domain() (filters, names []string) {
	names = levelsUpTo(3, []string{"a", "b", ""})
	for _, f := range levelsUpTo(3, []string{"a", "b", "", "+", "#"}) {
		if refmatch.ValidFilter(f) {
			filters = append(filters, f)
		}
	}
	return
}

// E3: every (filter, name) pair through the real match and through the real handler table
func c27e3(t *testing.T) (n int, pairs int, viols []explore.Violation) {
	// inside a scheduler bubble: the callbacks (go callback(...)) are threads and
	// Run() returns when they have finished
	explore.Bubble(t, nil, func(s *vsched.Sched) (string, []explore.Violation) {
		s.NoChoice = true
		s.MaxSteps = 100000000
		waitCB = s.Run
		n, pairs, viols = c27e3body()
		return "", nil
	})
	return
}

var waitCB func()

func c27e3body() (n int, pairs int, viols []explore.Violation) {
	filters, names := c27domain()
	vm := map[string]explore.Violation{}
	add := func(sig, detail string) {
		if _, ok := vm[sig]; !ok {
			vm[sig] = explore.Violation{Property: "C27", Sig: sig, Detail: detail}
		}
	}
	for _, f := range filters {
		for _, t := range names {
			n++
			want := refmatch.Match(f, t)
			if want {
				pairs++
			}
			// a panic in the matcher kills the client's receive loop: a violation, not a harness problem
			panicked := func(what string, body func()) (p bool) {
				defer func() {
					if r := recover(); r != nil {
						p = true
						add("panic:"+what, fmt.Sprintf("%s with subscription %q and a message on %q panics: %v", what, f, t, r))
					}
				}()
				body()
				return false
			}
			if panicked("match", func() {
				if got := client.VMatch(client.VSplit(f), client.VSplit(t)); got != want {
					add(fmt.Sprintf("match-differs-from-mqtt-rules:want=%t", want), fmt.Sprintf("match(%q, %q) = %t, MQTT 3.1.1 section 4.7 says %t", f, t, got, want))
				}
			}) {
				continue
			}
			// through store/handle/delete with one subscription
			var h client.VHandlers
			hit := 0
			h.Store(f, func(*client.Client, string, *pkts1.Publish) { hit++ })
			if panicked("dispatch", func() { h.Handle(nil, t) }) {
				continue
			}
			waitCallbacks()
			if (hit == 1) != want {
				add(fmt.Sprintf("dispatch-differs:want=%t", want), fmt.Sprintf("subscription %q, message on %q: callback ran %d times, matching says %t", f, t, hit, want))
			}
			h.Delete(f)
			hit = 0
			h.Handle(nil, t)
			waitCallbacks()
			if hit != 0 {
				add("callback-after-delete", fmt.Sprintf("subscription %q deleted, message on %q still invoked its callback", f, t))
			}
		}
	}
	keys := make([]string, 0, len(vm))
	for k := range vm {
		keys = append(keys, k)
	}
	sort.Strings(keys)
	for _, k := range keys {
		viols = append(viols, vm[k])
	}
	return
}

// callbacks run in their own goroutine (go callback(...)): outside a scheduler
// they are plain goroutines, so yield until they have run
func waitCallbacks() { waitCB() }

// E1: subscribe / unsubscribe / deliver histories on the real client
type c27ev struct {
	Kind  string // sub unsub pub
	Arg   string
	QoS   uint8
	Topic string
}

func (e c27ev) String() string {
	if e.Kind == "pub" {
		return fmt.Sprintf("deliver(%s,q%d)", e.Arg, e.QoS)
	}
	if e.Kind == "pub2" {
		return fmt.Sprintf("PUBLISH(%s,q2) without PUBREL yet", e.Arg)
	}
	if e.Kind == "rel" {
		return "PUBREL of the pending QoS 2 message"
	}
	if e.Kind == "sub" && e.QoS == 2 {
		return "sub(" + e.Arg + ") twice"
	}
	return e.Kind + "(" + e.Arg + ")"
}

func c27events() []c27ev {
	var evs []c27ev
	// "+/" is a two-character filter: the client subscribes to it as a short topic although it has two levels
	for _, f := range []string{"a/+", "a/#", "+/b", "xy", "predef:1", "+/"} {
		evs = append(evs, c27ev{Kind: "sub", Arg: f}, c27ev{Kind: "unsub", Arg: f})
	}
	// the application subscribes to a filter it already holds (a renewed subscription): one Unsubscribe ends both
	for _, f := range []string{"a/+", "xy"} {
		evs = append(evs, c27ev{Kind: "sub", Arg: f, QoS: 2})
	}
	for _, t := range []string{"a", "a/b", "c/b", "a/b/c", "xy", "p/1", "a/"} {
		for _, q := range []uint8{0, 1, 2} {
			evs = append(evs, c27ev{Kind: "pub", Arg: t, QoS: q})
		}
	}
	// a QoS 2 message whose PUBREL comes later: subscriptions may change in between, and the delivery (on PUBREL)
	// follows the subscriptions current then
	evs = append(evs, c27ev{Kind: "pub2", Arg: "a/b"}, c27ev{Kind: "rel"})
	return evs
}

func c27run(t *testing.T, hist []c27ev) (viols []explore.Violation, outcome string, herr string) {
	res, _ := explore.Bubble(t, nil, func(s *vsched.Sched) (string, []explore.Violation) {
		s.NoChoice = true
		cfg := c17cfg()
		c := cl.New(s, cfg)
		connectAnd(c)
		current := map[string]bool{}
		nextTID := uint16(20)
		pendingRel := ""
		tids := map[string]uint16{}
		var log []string
		for i, e := range hist {
			last := i == len(hist)-1
			switch e.Kind {
			case "sub":
				var call *cl.Call
				if strings.HasPrefix(e.Arg, "predef:") {
					call = c.Go(e.String(), func() error { return c.C.SubscribePredefined(1, 1, c.Handler("p/1")) })
					if call.Err == "" {
						current["p/1"] = true
					}
				} else {
					arg := e.Arg
					call = c.Go(e.String(), func() error { return c.C.Subscribe(arg, 1, c.Handler(arg)) })
					if call.Err == "" && e.QoS == 2 {
						call = c.Go(e.String(), func() error { return c.C.Subscribe(arg, 1, c.Handler(arg)) })
					}
					if call.Err == "" {
						current[arg] = true
					}
				}
				if !call.Returned || call.Err != "" {
					log = append(log, fmt.Sprintf("%s failed: %q", e, call.Err))
				}
			case "unsub":
				arg, name := e.Arg, e.Arg
				var call *cl.Call
				if strings.HasPrefix(arg, "predef:") {
					name = "p/1"
					call = c.Go(e.String(), func() error { return c.C.UnsubscribePredefined(1) })
				} else {
					call = c.Go(e.String(), func() error { return c.C.Unsubscribe(arg) })
				}
				if call.Returned && call.Err == "" {
					delete(current, name)
				}
			case "pub2":
				if pendingRel != "" {
					continue // one message in flight at a time
				}
				if _, ok := tids[e.Arg]; !ok {
					nextTID++
					tids[e.Arg] = nextTID
					c.FromGateway(refsn.Pkt{Type: refsn.REGISTER, TopicID: nextTID, MsgID: 77, Str: e.Arg}.Encode())
				}
				before := len(c.Deliv)
				c.FromGateway(refsn.Pkt{Type: refsn.PUBLISH, TIT: 0, TopicID: tids[e.Arg], MsgID: 60, QoS: 2, Data: []byte("m2")}.Encode())
				if len(c.Deliv) != before {
					viols = append(viols, explore.Violation{Property: "C27", Sig: "qos2-delivered-before-pubrel", Detail: fmt.Sprintf("history %v: QoS 2 message on %q reached a callback before PUBREL", hist, e.Arg)})
				}
				pendingRel = e.Arg
				log = append(log, e.String())
			case "rel":
				if pendingRel == "" {
					continue
				}
				topic := pendingRel
				pendingRel = ""
				before := len(c.Deliv)
				c.FromGateway(refsn.Pkt{Type: refsn.PUBREL, MsgID: 60}.Encode())
				got := c.Deliv[before:]
				var matching []string
				for f := range current {
					if refmatch.Match(f, topic) {
						matching = append(matching, f)
					}
				}
				sort.Strings(matching)
				if last {
					for _, d := range got {
						if !current[d.Sub] {
							viols = append(viols, explore.Violation{Property: "C27", Sig: "callback-of-non-current-subscription:on-pubrel", Detail: fmt.Sprintf("history %v: the QoS 2 message on %q released by PUBREL invoked the callback of %q which is not (or no longer) subscribed", hist, topic, d.Sub)})
						} else if !refmatch.Match(d.Sub, topic) {
							viols = append(viols, explore.Violation{Property: "C27", Sig: "callback-of-non-matching-filter:on-pubrel", Detail: fmt.Sprintf("history %v: message on %q invoked the callback of filter %q", hist, topic, d.Sub)})
						}
					}
					if len(matching) > 0 && len(got) != 1 {
						viols = append(viols, explore.Violation{Property: "C27", Sig: fmt.Sprintf("matching-subscription-not-served:deliveries=%d:on-pubrel", len(got)), Detail: fmt.Sprintf("history %v: the QoS 2 message on %q matches current %v at PUBREL but %d callbacks ran", hist, topic, matching, len(got))})
					}
					if len(matching) == 0 && len(got) != 0 {
						viols = append(viols, explore.Violation{Property: "C27", Sig: "delivery-without-matching-subscription:on-pubrel", Detail: fmt.Sprintf("history %v: at PUBREL the message on %q matches nothing current but ran %d callbacks", hist, topic, len(got))})
					}
				}
				log = append(log, fmt.Sprintf("%s->%d", e, len(got)))
			case "pub":
				before := len(c.Deliv)
				topic := e.Arg
				var tit uint8
				var tid uint16
				switch {
				case len(topic) == 2:
					tit, tid = 2, uint16(topic[0])<<8|uint16(topic[1])
				case topic == "p/1":
					tit, tid = 1, 1
				default:
					if _, ok := tids[topic]; !ok {
						nextTID++
						tids[topic] = nextTID
						c.FromGateway(refsn.Pkt{Type: refsn.REGISTER, TopicID: nextTID, MsgID: 77, Str: topic}.Encode())
					}
					tit, tid = 0, tids[topic]
				}
				c.FromGateway(refsn.Pkt{Type: refsn.PUBLISH, TIT: tit, TopicID: tid, MsgID: 50, QoS: e.QoS, Data: []byte("m")}.Encode())
				if e.QoS == 2 {
					if len(c.Deliv) != before && last {
						viols = append(viols, explore.Violation{Property: "C27", Sig: "qos2-delivered-before-pubrel", Detail: fmt.Sprintf("history %v: QoS 2 message on %q reached a callback before PUBREL", hist, topic)})
					}
					c.FromGateway(refsn.Pkt{Type: refsn.PUBREL, MsgID: 50}.Encode())
				}
				got := c.Deliv[before:]
				var matching []string
				for f := range current {
					if refmatch.Match(f, topic) {
						matching = append(matching, f)
					}
				}
				sort.Strings(matching)
				if last {
					for _, d := range got {
						if !current[d.Sub] {
							viols = append(viols, explore.Violation{Property: "C27", Sig: "callback-of-non-current-subscription", Detail: fmt.Sprintf("history %v: message on %q invoked the callback of %q which is not (or no longer) subscribed", hist, topic, d.Sub)})
						} else if !refmatch.Match(d.Sub, topic) {
							viols = append(viols, explore.Violation{Property: "C27", Sig: "callback-of-non-matching-filter", Detail: fmt.Sprintf("history %v: message on %q invoked the callback of filter %q", hist, topic, d.Sub)})
						}
						if d.Topic != topic {
							viols = append(viols, explore.Violation{Property: "C27", Sig: "callback-gets-wrong-topic", Detail: fmt.Sprintf("history %v: message on %q delivered as %q", hist, topic, d.Topic)})
						}
					}
					if len(matching) > 0 && len(got) != 1 {
						viols = append(viols, explore.Violation{Property: "C27", Sig: fmt.Sprintf("matching-subscription-not-served:deliveries=%d:q%d", len(got), e.QoS), Detail: fmt.Sprintf("history %v: message on %q (q%d) matches current %v but %d callbacks ran", hist, topic, e.QoS, matching, len(got))})
					}
					if len(matching) == 0 && len(got) != 0 {
						viols = append(viols, explore.Violation{Property: "C27", Sig: "delivery-without-matching-subscription", Detail: fmt.Sprintf("history %v: message on %q matches nothing current but ran %d callbacks", hist, topic, len(got))})
					}
				}
				log = append(log, fmt.Sprintf("%s->%d", e, len(got)))
			}
		}
		if len(s.Panics) > 0 {
			viols = append(viols, explore.Violation{Property: "C27", Sig: "panic", Detail: s.Panics[0]})
		}
		c.Take()
		c.Finish()
		return strings.Join(log, ";"), nil
	})
	return viols, res.Outcome, res.HarnessErr
}

type c27job struct{ Lo, Hi, Depth int }
type c27res struct {
	N         int
	Validated int
	Outs  []string
	Viols []explore.Violation
	Herr  string
}

func c27hist(idx, depth int, evs []c27ev) []c27ev {
	h := make([]c27ev, depth)
	for i := depth - 1; i >= 0; i-- {
		h[i] = evs[idx%len(evs)]
		idx /= len(evs)
	}
	return h
}

func TestC27(t *testing.T) {
	evs := c27events()
	if explore.IsWorker() {
		explore.Serve(func(name string, payload []byte) any {
			var j c27job
			json.Unmarshal(payload, &j)
			var r c27res
			outs := map[string]bool{}
			for i := j.Lo; i < j.Hi; i++ {
				h := c27hist(i, j.Depth, evs)
				// only histories that end with a delivery are judged; prune the others
				if k := h[len(h)-1].Kind; k != "pub" && k != "rel" {
					continue
				}
				v, out, herr := c27run(t, h)
				if r.N%8 == 0 && herr == "" {
					if _, out2, _ := c27run(t, h); out2 != out {
						herr = fmt.Sprintf("nondeterministic replay of %v: %q vs %q", h, out, out2)
					} else {
						r.Validated++
					}
				}
				r.N++
				outs[out] = true
				r.Viols = append(r.Viols, v...)
				if herr != "" {
					r.Herr = herr
				}
			}
			r.Outs = explore.SortedKeys(outs)
			if len(r.Viols) > 20 {
				r.Viols = r.Viols[:20]
			}
			return r
		})
		return
	}
	rep := explore.NewReport("C27", "model_checking")
	n, pairs, viols := c27e3(t)
	rep.Add(viols...)
	depth := 3
	if explore.Tier() == "thorough" {
		depth = 4
	}
	pool := explore.NewPool("TestC27", explore.Workers())
	defer pool.Close()
	total := 1
	for i := 0; i < depth; i++ {
		total *= len(evs)
	}
	chunk := total/(pool.N*6) + 1
	results := make(chan c27res, 1000)
	jobs := 0
	for lo := 0; lo < total; lo += chunk {
		hi := lo + chunk
		if hi > total {
			hi = total
		}
		jobs++
		go func(lo, hi int) {
			var r c27res
			if err := pool.Call("hist", c27job{lo, hi, depth}, &r); err != nil {
				r.Herr = err.Error()
			}
			results <- r
		}(lo, hi)
	}
	hist, validated, outs := 0, 0, map[string]bool{}
	for i := 0; i < jobs; i++ {
		r := <-results
		hist += r.N
		validated += r.Validated
		for _, o := range r.Outs {
			outs[o] = true
		}
		rep.Add(r.Viols...)
		if r.Herr != "" {
			rep.HarnessErr = r.Herr
		}
	}
	rep.Coverage = map[string]any{
		"states":                        len(outs),
		"transitions":                   hist * depth,
		"traces_validated_against_impl": validated,
		"filter_name_pairs":             n,
		"matching_pairs":                pairs,
		"histories":                     hist,
		"exhaustive":                    true,
		"samples":                       []string{"match(\"a/#\", \"a\")", "match(\"+/b\", \"/b\")", "sub(a/+);sub(a/#);unsub(a/+);deliver(a/b,q2)"},
		"rule":                          fmt.Sprintf("E3: every valid filter x every name of <=3 levels over {a,b,empty level} with + anywhere and # last (%d pairs) through the real match and through the handler table's store/handle/delete, against refmatch (MQTT 3.1.1 4.7); E1: every history of length %d over subscribe/unsubscribe of {a/+, a/#, +/b, short xy, predefined 1, the two-character two-level filter +/} (also subscribing twice to a/+ and xy) and deliveries on {a, a/b, c/b, a/b/c, xy, p/1, a/} at QoS 0/1/2 (QoS 2 delivered on PUBREL; also a QoS 2 PUBLISH and its PUBREL as separate events, so that subscriptions can change in between) that ends with a delivery, on the real client with a scripted gateway; states = distinct delivery logs", n, depth),
	}
	rep.Assumptions = []string{"default schedule", "'$'-topics are outside the alphabet", "when several current filters match, exactly one callback is demanded (which one is not specified)"}
	rep.Finish()
}
