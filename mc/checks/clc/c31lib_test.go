package clc

import (
	"fmt"
	"strings"
	"testing"
	"time"

	"verif/mc/explore"
	"verif/mc/harness/cl"
	"verif/mc/ref/refsn"
	"verif/mc/vsched"
)

// ---- C31 (library part): AUTH is sent right after every CONNECT iff a user is configured ----

type c31lib struct {
	user, pass string
	will       bool
	cycle      bool // Connect, one sleep cycle, Connect again
}

func (k c31lib) name() string {
	n := fmt.Sprintf("user=%q password=%q will=%t", k.user, k.pass, k.will)
	if k.cycle {
		n += " connect, sleep, connect again"
	}
	return n
}

func runC31lib(t *testing.T, k c31lib, prefix []int) explore.ExecResult {
	res, _ := explore.Bubble(t, prefix, func(s *vsched.Sched) (string, []explore.Violation) {
		cfg := c17cfg()
		cfg.User, cfg.Password, cfg.Will = k.user, []byte(k.pass), k.will
		c := cl.New(s, cfg)
		var log []string
		// the gateway stays silent on any number of CONNECT attempts (all patterns), answers the will requests
		c.SetResponder(func(p refsn.Pkt, n int) [][]byte {
			switch p.Type {
			case refsn.CONNECT:
				switch s.Choose(4, "gateway on CONNECT") {
				case 3:
					// a gateway asking for (more) authentication: a client without a user has nothing to answer with
					log = append(log, "AUTH(continue) request, CONNACK")
					return [][]byte{refsn.Pkt{Type: refsn.AUTH, Reason: 0x18, Str: "PLAIN"}.Encode(), refsn.Pkt{Type: refsn.CONNACK}.Encode()}
				case 1:
					log = append(log, "CONNECT ignored")
					return nil
				case 2:
					if k.will {
						log = append(log, "WILLTOPICREQ")
						return [][]byte{refsn.Pkt{Type: refsn.WILLTOPICREQ}.Encode()}
					}
				}
				log = append(log, "CONNACK")
				return [][]byte{refsn.Pkt{Type: refsn.CONNACK}.Encode()}
			case refsn.WILLTOPIC:
				return [][]byte{refsn.Pkt{Type: refsn.WILLMSGREQ}.Encode()}
			case refsn.WILLMSG:
				return [][]byte{refsn.Pkt{Type: refsn.CONNACK}.Encode()}
			}
			if a := ack(p); a != nil && p.Type != refsn.CONNECT {
				return [][]byte{a}
			}
			return nil
		})
		c.Dial()
		call := c.Go("Connect", c.C.Connect)
		end := s.Now().Add(10 * time.Second)
		for !call.Returned && len(s.Panics) == 0 && s.HarnessEr == "" {
			at, ok := s.NextTimer()
			if !ok || at.After(end) {
				break
			}
			s.AdvanceTo(at, false)
		}
		// "every CONNECT it sends": also the CONNECT that takes the client from a sleep cycle back to active
		if k.cycle && call.Returned && call.Err == "" && len(s.Panics) == 0 {
			s.NoChoice = true
			sl := c.Go("Sleep(1s)", func() error { return c.C.Sleep(time.Second) })
			for i := 0; i < 8 && !sl.Returned && len(s.Panics) == 0 && s.HarnessEr == ""; i++ {
				s.FireNext()
			}
			s.NoChoice = false
			if sl.Returned && sl.Err == "" {
				log = append(log, "slept")
				call = c.Go("Connect (wake-up)", c.C.Connect)
				end := s.Now().Add(10 * time.Second)
				for !call.Returned && len(s.Panics) == 0 && s.HarnessEr == "" {
					at, ok := s.NextTimer()
					if !ok || at.After(end) {
						break
					}
					s.AdvanceTo(at, false)
				}
			}
		}
		s.NoChoice = true
		out := c.Take()
		var names []string
		var vs []explore.Violation
		add := func(sig, f string, a ...any) {
			vs = append(vs, explore.Violation{Property: "C31", Sig: sig, Detail: k.name() + " (gateway: " + strings.Join(log, ", ") + "): " + fmt.Sprintf(f, a...), Scenario: k.name()})
		}
		// replies of the receive loop to requests of the gateway (WILLTOPIC, WILLMSG) come from another goroutine and
		// may fall between the API thread's CONNECT and AUTH: "right after" is judged on the API thread's own datagrams
		var own []cl.Out
		for _, o := range out {
			if o.Err != nil {
				names = append(names, "UNDECODABLE")
				own = append(own, o)
				continue
			}
			names = append(names, o.P.Name())
			if o.P.Type != refsn.WILLTOPIC && o.P.Type != refsn.WILLMSG {
				own = append(own, o)
			}
		}
		for i, o := range own {
			if o.Err != nil {
				continue
			}
			switch o.P.Type {
			case refsn.AUTH:
				if k.user == "" {
					add("lib:auth-without-user", "AUTH datagram sent by a client configured without a user (datagrams %v)", names)
				} else if i == 0 || own[i-1].Err != nil || own[i-1].P.Type != refsn.CONNECT {
					add("lib:auth-not-after-connect", "an AUTH datagram does not follow a CONNECT (datagrams %v)", names)
				} else if o.P.Str != "PLAIN" || string(o.P.Data) != "\x00"+k.user+"\x00"+k.pass {
					add("lib:auth-with-other-credentials", "AUTH carries method %q data %q", o.P.Str, o.P.Data)
				}
			case refsn.CONNECT:
				if k.user != "" && (i+1 >= len(own) || own[i+1].Err != nil || own[i+1].P.Type != refsn.AUTH) {
					add("lib:connect-not-followed-by-auth", "a CONNECT datagram is not followed by AUTH (datagrams %v)", names)
				}
			}
		}
		if len(s.Panics) > 0 {
			add("lib:panic", "%s", s.Panics[0])
		}
		c.SetResponder(func(p refsn.Pkt, n int) [][]byte {
			if a := ack(p); a != nil {
				return [][]byte{a}
			}
			return nil
		})
		c.Finish()
		return strings.Join(log, ",") + "|" + strings.Join(names, ",") + "=>" + call.Err, vs
	})
	return res
}

func TestC31lib(t *testing.T) {
	var scs []explore.Scenario
	for _, k := range []c31lib{{user: "", pass: "", will: false}, {will: true}, {pass: "secret"}, {user: "u1", pass: "p1"}, {user: "u1", pass: "p1", will: true}, {user: "u1"},
		{user: "u1", pass: "p1", cycle: true}, {cycle: true}} {
		k := k
		scs = append(scs, explore.Scenario{Name: k.name(), Run: func(p []int) explore.ExecResult { return runC31lib(t, k, p) }})
	}
	if explore.IsWorker() {
		explore.ServeScenarios(scs)
		return
	}
	rep := explore.NewReport("C31", "exploration")
	explore.RunScenarios(rep, scs, explore.ScenarioOpts{Test: "TestC31lib", QuickBound: -1, ThoroughFrom: -1, ThoroughMax: -1,
		QuickBudget: 120 * time.Second, ThoroughBudge: 5 * time.Minute})
	n, _ := rep.Coverage["schedules"].(int)
	rep.Coverage["evaluations"] = n
	rep.Coverage["distinct_nontrivial"] = rep.Coverage["states"]
	rep.Coverage["rule"] = "library part: Connect() of the real client (RetryCount 2) configured without user / with user and password / with user only / with a password but no user, with and without a will, against a scripted gateway that ignores or answers each CONNECT attempt (also with an AUTH request of its own) (all patterns, also through the will exchange), all thread interleavings of the call; two configurations continue with a sleep cycle and a second Connect() (the CONNECT that returns the client to active): a client without a user never sends AUTH; with a user every CONNECT datagram is immediately followed by AUTH(PLAIN) with exactly the configured credentials"
	rep.Assumptions = []string{"virtual time"}
	rep.Finish()
}
