package clc

import (
	"fmt"
	"strings"
	"testing"
	"time"

	"verif/mc/explore"
	"verif/mc/harness/cl"
	"verif/mc/ref/refsn"
	"verif/mc/vsched"
)

// ---- C28: client API calls always return and the client shuts down -----------------

type c28call struct {
	name  string
	state string // fresh connected awake
	run   func(c *cl.CL) error
	bound func(cfg cl.Config) time.Duration
	ends  bool // the call itself ends the client (Disconnect/Close)
}

func retryBound(cfg cl.Config) time.Duration {
	return time.Duration(cfg.RetryCount+1) * cfg.RetryDelay
}

func c28calls() []c28call {
	connB := func(cfg cl.Config) time.Duration { return time.Duration(cfg.RetryCount+1) * cfg.ConnectTimeout }
	sleepB := func(cfg cl.Config) time.Duration { return retryBound(cfg) + 3*time.Second + time.Minute }
	var out []c28call
	for _, st := range []string{"fresh", "connected", "awake"} {
		out = append(out,
			c28call{"Connect", st, func(c *cl.CL) error { return c.C.Connect() }, connB, false},
			c28call{"Register", st, func(c *cl.CL) error { return c.C.Register("r/9") }, retryBound, false},
			c28call{"Subscribe", st, func(c *cl.CL) error { return c.C.Subscribe("s/1", 1, c.Handler("s/1")) }, retryBound, false},
			c28call{"Unsubscribe", st, func(c *cl.CL) error { return c.C.Unsubscribe("s/1") }, retryBound, false},
			c28call{"Publish q1", st, func(c *cl.CL) error { return c.C.Publish("xy", []byte("m"), 1, false) }, retryBound, false},
			c28call{"Publish q2", st, func(c *cl.CL) error { return c.C.Publish("xy", []byte("m"), 2, false) }, func(cfg cl.Config) time.Duration { return 2 * retryBound(cfg) }, false},
			c28call{"Ping", st, func(c *cl.CL) error { return c.C.Ping() }, retryBound, false},
			c28call{"Sleep(3s)", st, func(c *cl.CL) error { return c.C.Sleep(3 * time.Second) }, sleepB, false},
			c28call{"Disconnect", st, func(c *cl.CL) error { return c.C.Disconnect() }, retryBound, true},
			c28call{"Close", st, func(c *cl.CL) error { return c.C.Close() }, retryBound, true},
		)
	}
	return out
}

// gateway answer alternatives for one client datagram
var c28alts = []string{"correct", "silence", "wrong type (PINGRESP)", "wrong msg id", "unsolicited REGISTER then correct", "DISCONNECT", "correct, twice",
	// one deviation each, although they last: the gateway never answers this type of datagram again / it repeats
	// its (correct) answer 2.5 s, 5 s and 7.5 s later, as a gateway retransmitting to a client it believes deaf does
	"silence for this and every later datagram of the type", "correct, and the same answer again after 2.5 s, 5 s and 7.5 s"}

func c28answer(p refsn.Pkt, alt int) [][]byte {
	a := ack(p)
	switch alt {
	case 0:
		if a == nil {
			return nil
		}
		return [][]byte{a}
	case 1:
		return nil
	case 2:
		return [][]byte{refsn.Pkt{Type: refsn.PINGRESP}.Encode()}
	case 3:
		q := p
		q.MsgID = p.MsgID + 100
		if b := ack(q); b != nil {
			return [][]byte{b}
		}
		return nil
	case 4:
		r := [][]byte{refsn.Pkt{Type: refsn.REGISTER, TopicID: 44, MsgID: 200, Str: "u/1"}.Encode()}
		if a != nil {
			r = append(r, a)
		}
		return r
	case 6:
		if a == nil {
			return nil
		}
		return [][]byte{a, a}
	}
	return [][]byte{refsn.Pkt{Type: refsn.DISCONNECT}.Encode()}
}

func runC28(t *testing.T, k c28call, prefix []int) explore.ExecResult {
	res, _ := explore.Bubble(t, prefix, func(s *vsched.Sched) (string, []explore.Violation) {
		s.NoChoice = true
		cfg := c17cfg()
		c := cl.New(s, cfg)
		good := func(p refsn.Pkt, n int) [][]byte { return c28answer(p, 0) }
		c.SetResponder(good)
		c.Dial()
		if k.state != "fresh" {
			c.Go("Connect", c.C.Connect)
		}
		if k.state == "awake" {
			sl := c.Go("Sleep(1s)", func() error { return c.C.Sleep(time.Second) })
			for i := 0; i < 6 && !sl.Returned; i++ {
				s.FireNext()
			}
		}
		c.Take()
		gwDisc := false
		mute := map[byte]bool{}
		var log []string
		c.SetResponder(func(p refsn.Pkt, n int) [][]byte {
			if p.Type == refsn.REGACK {
				return nil
			}
			if mute[p.Type] {
				return nil
			}
			alt := s.Choose(len(c28alts), "gateway answers "+p.Name())
			log = append(log, p.Name()+"->"+c28alts[alt])
			switch alt {
			case 7:
				mute[p.Type] = true
				return nil
			case 8:
				a := ack(p)
				if a == nil {
					return nil
				}
				for _, d := range []time.Duration{2500 * time.Millisecond, 5 * time.Second, 7500 * time.Millisecond} {
					s.AddTimer(d, nil, func() { c.Inject(a) }, false)
				}
				return [][]byte{a}
			}
			if alt == 5 && p.Type != refsn.DISCONNECT {
				// (a DISCONNECT in answer to the client's own DISCONNECT is the correct reply, not a gateway-initiated one)
				gwDisc = true
			}
			return c28answer(p, alt)
		})
		s.NoChoice = false
		call := c.Go(k.name, func() error { return k.run(c) })
		bound := k.bound(cfg)
		deadline := s.Now().Add(bound + 2*time.Second)
		for !call.Returned {
			at, ok := s.NextTimer()
			if !ok || at.After(deadline) || len(s.Panics) > 0 || s.HarnessEr != "" {
				break
			}
			s.FireNext()
		}
		s.NoChoice = true
		var vs []explore.Violation
		add := func(sig, f string, a ...any) {
			vs = append(vs, explore.Violation{Property: "C28", Sig: sig, Detail: fmt.Sprintf(k.name+" in state "+k.state+" (gateway: "+strings.Join(log, ", ")+"): "+f, a...), Scenario: k.name + "@" + k.state})
		}
		switch {
		case len(s.Panics) > 0:
			add("panic:"+k.name, "%s", s.Panics[0])
		case !call.Returned:
			add("call-never-returns:"+k.name+"@"+k.state, "still blocked %v after it started (bound %v); parked threads %v", s.Now().Sub(vsched.Epoch)-call.Started, bound, s.ParkedLabels())
		case call.RetAt-call.Started > bound:
			add("call-returns-late:"+k.name+"@"+k.state, "returned after %v, bound %v", call.RetAt-call.Started, bound)
		}
		// shutdown: after Close/Disconnect returned, or after a DISCONNECT from the gateway, every client goroutine exits
		if call.Returned && len(s.Panics) == 0 && (gwDisc || (k.ends && (k.state != "fresh"))) {
			s.Advance(1100 * time.Millisecond)
			if live := s.Live(); live > 0 {
				why := "gateway-DISCONNECT"
				if !gwDisc {
					why = k.name
				}
				add("goroutines-survive-shutdown:after="+why+":call="+k.name+"@"+k.state, "%d client goroutine(s) still alive 1.1 s after %s: %v", live, why, s.ParkedLabels())
			}
		}
		out := strings.Join(log, ";") + "=>" + call.Err + fmt.Sprint(call.Returned)
		c.SetResponder(good)
		c.Finish()
		return out, vs
	})
	return res
}

func TestC28(t *testing.T) {
	var scs []explore.Scenario
	for _, k := range c28calls() {
		k := k
		scs = append(scs, explore.Scenario{Name: k.name + "@" + k.state, Run: func(p []int) explore.ExecResult { return runC28(t, k, p) }})
	}
	if explore.IsWorker() {
		explore.ServeScenarios(scs)
		return
	}
	rep := explore.NewReport("C28", "model_checking")
	explore.RunScenarios(rep, scs, explore.ScenarioOpts{Test: "TestC28", QuickBound: 2, ThoroughFrom: 2, ThoroughMax: 4,
		QuickBudget: 120 * time.Second, ThoroughBudge: 10 * time.Minute})
	rep.Coverage["rule"] = "every blocking API call (Connect, Register, Subscribe, Unsubscribe, Publish q1/q2, Ping, Sleep, Disconnect, Close) issued in each of the client states fresh / connected / awake-after-a-sleep, against a scripted gateway that answers every datagram of the client correctly, not at all, with a wrong packet type, a wrong message id, an unsolicited REGISTER first, a DISCONNECT, correctly but twice, never again for that type of datagram, or correctly and again 2.5 / 5 / 7.5 s later: all answer patterns with at most 2 deviations (thorough 4), then only timers; the call must return within (RetryCount+1) x ConnectTimeout / RetryDelay (+ sleep duration + the library's 1 minute PINGRESP wait for Sleep), and after Close / Disconnect / a gateway DISCONNECT no client goroutine is alive 1.1 s later"
	rep.Assumptions = []string{"default schedule (environment choices only); virtual time", "ConnectTimeout 2 s, RetryDelay 1 s, RetryCount 2, KeepAlive off"}
	rep.Finish()
}
