package clc

import (
	"fmt"
	"strings"
	"testing"
	"time"

	"verif/mc/explore"
	"verif/mc/harness/cl"
	"verif/mc/ref/refsn"
	"verif/mc/vsched"
)

// ---- C18 (sleep transaction): a finished sleep exchange stays finished ---------------
//
// Client.Sleep() against a gateway whose DISCONNECT reply and wake-up PINGRESP
// arrive at once, exactly when the resend / PINGRESP-wait timer fires (a tie
// whose both orders are explored), after the retry budget, or never; timers
// are scheduler choices at every point, thread interleavings are explored
// within the deviation bound.  Oracle: the call returns; after it has returned
// the exchange sends nothing more (no DISCONNECT(duration) retransmission, no
// wake-up PINGREQ), its entry is gone from the store, nothing panics.

var dbgLog bool

func runC18sleep(t *testing.T, fromAwake bool, prefix []int) explore.ExecResult {
	res, _ := explore.Bubble(t, prefix, func(s *vsched.Sched) (string, []explore.Violation) {
		s.NoChoice = true
		cfg := c17cfg() // RetryDelay 1 s, RetryCount 2
		c := cl.New(s, cfg)
		connectAnd(c)
		if fromAwake {
			sl := c.Go("Sleep(1s)", func() error { return c.C.Sleep(time.Second) })
			for i := 0; i < 6 && !sl.Returned; i++ {
				s.FireNext()
			}
		}
		c.Take()
		var glog []string
		c.SetResponder(func(p refsn.Pkt, n int) [][]byte {
			a := ack(p)
			if a == nil {
				return nil
			}
			late := func(d time.Duration, what string) [][]byte {
				glog = append(glog, fmt.Sprintf("%s+%v", what, d))
				s.AddTimer(d, nil, func() { c.Inject(a) }, false)
				return nil
			}
			switch {
			case p.Type == refsn.DISCONNECT && p.HasDur && p.Duration > 0:
				switch s.Choose(4, "DISCONNECT reply") {
				case 1:
					return late(cfg.RetryDelay, "DISCONNECT") // together with the resend timer
				case 2:
					return late(3*cfg.RetryDelay, "DISCONNECT") // together with the timer that gives up
				case 3:
					glog = append(glog, "DISCONNECT unanswered")
					return nil
				}
			case p.Type == refsn.PINGREQ && len(p.Data) > 0:
				switch s.Choose(3, "PINGRESP") {
				case 1:
					return late(time.Minute, "PINGRESP") // together with the library's PINGRESP wait
				case 2:
					glog = append(glog, "PINGRESP never")
					return nil
				}
			}
			return [][]byte{a}
		})
		s.NoChoice = false
		s.LogSched = dbgLog
		s.TimerChoices = true
		s.Horizon = s.Now().Add(70 * time.Second)
		call := c.Go("Sleep(1s)", func() error { return c.C.Sleep(time.Second) })
		s.TimerChoices = false
		s.NoChoice = true
		// whatever is still pending fires now: nothing of it may belong to the finished exchange
		for i := 0; i < 20 && len(s.Panics) == 0; i++ {
			at, ok := s.NextTimer()
			if !ok || at.After(s.Horizon.Add(10*time.Second)) {
				break
			}
			s.AdvanceTo(at, false)
		}
		var vs []explore.Violation
		ctx := fmt.Sprintf("Sleep(1s) from awake=%t (gateway: %s)", fromAwake, strings.Join(glog, ", "))
		add := func(sig, f string, a ...any) {
			vs = append(vs, explore.Violation{Property: "C18", Sig: "sleep:" + sig, Detail: ctx + ": " + fmt.Sprintf(f, a...), Scenario: "sleep transaction"})
		}
		out := c.Take()
		var names []string
		for i, o := range out {
			n := o.String()
			names = append(names, o.P.Name())
			if call.Returned && i >= call.RetSent-0 && o.Err == nil && len(s.Panics) == 0 {
				_ = n
			}
		}
		switch {
		case len(s.Panics) > 0:
			add("panic", "%s", s.Panics[0])
		case !call.Returned:
			add("call-never-returns", "Sleep has not returned after all timers (datagrams %v; parked %v)", names, s.ParkedLabels())
		default:
			base := call.RetSent - (c.SentCount() - len(out))
			for i, o := range out {
				if i < base || o.Err != nil {
					continue
				}
				if (o.P.Type == refsn.DISCONNECT && o.P.HasDur && o.P.Duration > 0) || (o.P.Type == refsn.PINGREQ && len(o.P.Data) > 0) {
					add("datagram-after-the-exchange-finished:"+o.P.Name(), "%s was sent after Sleep had returned %q (datagrams %v, %d sent before the return)", o.P.Name(), call.Err, names, base)
				}
			}
			if snap := c.C.VSnapshot(); strings.Contains(snap, "sleepTransaction") {
				add("transaction-left-in-store", "after Sleep returned %q its transaction is still registered: %s", call.Err, snap)
			}
		}
		o := fmt.Sprintf("%s|%v=>%t:%s", strings.Join(glog, ","), names, call.Returned, call.Err)
		if dbgLog {
			o += fmt.Sprintf("\nSCHED %v", s.Events)
		}
		c.SetResponder(func(p refsn.Pkt, n int) [][]byte {
			if a := ack(p); a != nil {
				return [][]byte{a}
			}
			return nil
		})
		c.Finish()
		return o, vs
	})
	return res
}

func TestC18sleep(t *testing.T) {
	scs := []explore.Scenario{
		{Name: "Sleep from active", Run: func(p []int) explore.ExecResult { return runC18sleep(t, false, p) }},
		{Name: "Sleep from awake", Run: func(p []int) explore.ExecResult { return runC18sleep(t, true, p) }},
	}
	if explore.IsWorker() {
		explore.ServeScenarios(scs)
		return
	}
	rep := explore.NewReport("C18", "model_checking")
	explore.RunScenarios(rep, scs, explore.ScenarioOpts{Test: "TestC18sleep", QuickBound: 2, ThoroughFrom: 2, ThoroughMax: 5,
		QuickBudget: 120 * time.Second, ThoroughBudge: 10 * time.Minute})
	rep.Coverage["rule"] = "sleep transaction: Client.Sleep(1 s) from the active and from the awake state against a gateway whose DISCONNECT reply comes at once / together with the resend timer / together with the timer that gives up / never and whose wake-up PINGRESP comes at once / together with the library's one-minute PINGRESP wait / never; timers are choices at every scheduling point and thread interleavings are explored within the deviation bound: Sleep returns, afterwards the exchange sends nothing more, its store entry is gone, nothing panics"
	rep.Assumptions = []string{"sleep transaction: sequentially consistent memory; points at the shim mutex/atomic/timer operations and the listed fields"}
	rep.Finish()
}
