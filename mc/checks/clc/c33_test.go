package clc

import (
	"fmt"
	"strings"
	"testing"
	"time"

	"github.com/energomonitor/bisquitt/util"

	"verif/mc/explore"
	"verif/mc/harness/cl"
	"verif/mc/ref/refsn"
	"verif/mc/vsched"
)

// ---- C33: client keep-alive pings only while active ---------------------------------
//
// KeepAlive 4 s, RetryDelay 1 s, RetryCount 2.  After Connect (t = 0, state
// active) the user thread performs one API action at t = x.5 s (all timers fall
// on whole seconds, so x.5 stands for "after everything due at x and before
// everything due at x+1"); the scripted gateway answers every keep-alive
// PINGREQ promptly / 1 s late / 2 s late / never and the DISCONNECT(d) of Sleep
// promptly / 1 s late; everything else at once.  All combinations within the
// deviation bound, together with thread interleavings of the API call, the
// receive loop and the keep-alive loop, timer ties, and which ready case a
// select takes, are explored up to a horizon of 20 s of virtual time.

const (
	c33KeepAlive = 4 * time.Second
	c33Horizon   = 20 * time.Second
)

type c33sc struct {
	action string
	at     time.Duration
	ka     time.Duration
	retry  time.Duration // RetryDelay (0: 1 s)
}

func (sc c33sc) name() string {
	if sc.retry != 0 {
		return fmt.Sprintf("%s@%v/ka=%v/retry=%v", sc.action, sc.at, sc.ka, sc.retry)
	}
	return fmt.Sprintf("%s@%v/ka=%v", sc.action, sc.at, sc.ka)
}

func c33cfg(keepAlive time.Duration) cl.Config {
	cfg := c17cfg()
	cfg.KeepAlive = keepAlive
	return cfg
}

func c33action(c *cl.CL, a string) func() error {
	switch a {
	case "Sleep(1s)":
		return func() error { return c.C.Sleep(time.Second) }
	case "Sleep(2s)":
		return func() error { return c.C.Sleep(2 * time.Second) }
	case "Sleep(3s)":
		return func() error { return c.C.Sleep(3 * time.Second) }
	case "Sleep(6s)":
		return func() error { return c.C.Sleep(6 * time.Second) }
	case "Sleep(3s)+Ping":
		// a second API call after the sleep period: whatever the keep-alive loop did meanwhile must not block it
		return func() error {
			if err := c.C.Sleep(3 * time.Second); err != nil {
				return err
			}
			return c.C.Ping()
		}
	case "Disconnect":
		return c.C.Disconnect
	case "Publish q1":
		return func() error { return c.C.Publish("xy", []byte("m"), 1, false) }
	case "Ping":
		return c.C.Ping
	}
	return nil
}

type c33sent struct {
	at    time.Duration
	p     refsn.Pkt
	state util.ClientState // client state at the last quiescent moment before the write
}

func runC33(t *testing.T, sc c33sc, keepAlive time.Duration, prefix []int) explore.ExecResult {
	res, _ := explore.Bubble(t, prefix, func(s *vsched.Sched) (string, []explore.Violation) {
		s.NoChoice = true
		cfg33 := c33cfg(keepAlive)
		if sc.retry != 0 {
			cfg33.RetryDelay = sc.retry
		}
		c := cl.New(s, cfg33)
		connectAnd(c)
		c.Take()
		base := c.SentCount()
		now := func() time.Duration { return s.Now().Sub(vsched.Epoch) }
		// state timeline and per-datagram state, sampled at every quiescent moment
		stateFor := map[int]util.ClientState{}
		type tr struct {
			at time.Duration
			st util.ClientState
		}
		var timeline []tr
		s.OnStep = func() {
			st := c.C.VState()
			stateFor[c.SentCount()] = st
			if len(timeline) == 0 || timeline[len(timeline)-1].st != st {
				timeline = append(timeline, tr{now(), st})
			}
		}
		var glog []string
		silent := false
		c.SetResponder(func(p refsn.Pkt, n int) [][]byte {
			a := ack(p)
			if a == nil {
				return nil
			}
			late := func(d time.Duration) [][]byte {
				s.AddTimer(d, nil, func() { c.Inject(a) }, false)
				return nil
			}
			switch {
			case p.Type == refsn.PINGREQ && len(p.Data) == 0:
				switch s.Choose(4, "PINGRESP") {
				case 1:
					glog = append(glog, "PINGRESP+1s")
					return late(time.Second)
				case 2:
					glog = append(glog, "PINGRESP+2s")
					return late(2 * time.Second)
				case 3:
					glog = append(glog, "PINGREQ unanswered")
					silent = true
					return nil
				}
			case p.Type == refsn.DISCONNECT && p.HasDur && p.Duration > 0:
				switch s.Choose(3, "DISCONNECT reply") {
				case 1:
					glog = append(glog, "DISCONNECT+1s")
					return late(time.Second)
				case 2:
					// (actions start at x.5 s: this reply arrives at the very instant of a keep-alive tick)
					glog = append(glog, "DISCONNECT+0.5s")
					return late(500 * time.Millisecond)
				}
			case p.Type == refsn.DISCONNECT:
				// the reply to the plain DISCONNECT of Disconnect(): a keep-alive tick can fall into the exchange
				switch s.Choose(3, "plain DISCONNECT reply") {
				case 1:
					glog = append(glog, "plain DISCONNECT reply +1s")
					return late(time.Second)
				case 2:
					glog = append(glog, "plain DISCONNECT reply +2.5s")
					return late(2500 * time.Millisecond)
				}
			}
			return [][]byte{a}
		})
		s.NoChoice = false
		s.AdvanceTo(vsched.Epoch.Add(sc.at), true)
		var call *cl.Call
		if f := c33action(c, sc.action); f != nil {
			call = c.Go(sc.action, f)
		}
		end := vsched.Epoch.Add(c33Horizon)
		for len(s.Panics) == 0 && s.HarnessEr == "" {
			at, ok := s.NextTimer()
			if !ok || at.After(end) {
				break
			}
			s.AdvanceTo(at, true)
		}
		s.OnStep()
		s.OnStep = nil
		s.NoChoice = true
		horizon := now()

		var sent []c33sent
		for i, o := range c.Take() {
			if o.Err == nil {
				sent = append(sent, c33sent{o.At, o.P, stateFor[i+base]})
			}
		}
		var vs []explore.Violation
		ctx := fmt.Sprintf("%s (gateway: %s)", sc.name(), strings.Join(glog, ", "))
		add := func(sig, f string, a ...any) {
			vs = append(vs, explore.Violation{Property: "C33", Sig: sig, Detail: ctx + ": " + fmt.Sprintf(f, a...), Scenario: sc.name()})
		}
		if len(s.Panics) > 0 {
			add("panic", "%s", s.Panics[0])
		}
		// O1: no keep-alive PINGREQ (one without client id) while asleep or disconnected
		if keepAlive > 0 {
			for _, x := range sent {
				if x.p.Type == refsn.PINGREQ && len(x.p.Data) == 0 && (x.state == util.StateAsleep || x.state == util.StateDisconnected) {
					add("keepalive-pingreq-while:"+x.state.String(), "PINGREQ without client id sent at %v while the client state is %s", x.at, x.state)
					break
				}
			}
		}
		// O1b: the protocol view - once the client has sent its plain DISCONNECT it is disconnected whatever its own
		// state variable says: no keep-alive PINGREQ (first transmission or retransmission) may follow it
		if keepAlive > 0 {
			gone := time.Duration(-1)
			for _, x := range sent {
				switch {
				case x.p.Type == refsn.DISCONNECT && !(x.p.HasDur && x.p.Duration > 0) && gone < 0:
					gone = x.at
				case x.p.Type == refsn.PINGREQ && len(x.p.Data) == 0 && gone >= 0 && x.at > gone:
					add("keepalive-pingreq-after-disconnect-sent", "PINGREQ without client id sent at %v, the client's DISCONNECT went out at %v", x.at, gone)
					gone = -2
				}
				if gone == -2 {
					break
				}
			}
		}
		// O2: while continuously active, PINGREQs are at most KeepAlive apart (judged when the gateway answered every ping)
		if keepAlive > 0 && !silent && len(s.Panics) == 0 {
			for i, seg := range timeline {
				if seg.st != util.StateActive {
					continue
				}
				a, b := seg.at, horizon
				if i+1 < len(timeline) {
					b = timeline[i+1].at
				}
				last := a
				for _, x := range sent {
					if x.p.Type != refsn.PINGREQ || x.at < a || x.at > b {
						continue
					}
					if x.at-last > keepAlive {
						break
					}
					last = x.at
				}
				if b-last > keepAlive {
					add("no-pingreq-for-a-keepalive-period-while-active", "active from %v to %v but no PINGREQ between %v and %v (KeepAlive %v)", a, b, last, last+keepAlive+1, keepAlive)
					break
				}
			}
		}
		// O3: with every ping answered, the keep-alive exchange must not make the API call fail or hang
		if call != nil && !silent && len(s.Panics) == 0 {
			if !call.Returned {
				add("api-call-blocked:"+sc.action, "%s has not returned %v after it started; parked %v", sc.action, horizon-call.Started, s.ParkedLabels())
			} else if call.Err != "" {
				add("api-call-fails:"+sc.action, "%s returned %q (it returns nil without the keep-alive loop)", sc.action, call.Err)
			}
		}
		// ... and whatever the gateway does with the pings, the call returns (the client may legitimately give up
		// when its keep-alive pings stay unanswered, but then the call returns an error)
		if call != nil && silent && len(s.Panics) == 0 && !call.Returned {
			add("api-call-blocked:"+sc.action+":ping-unanswered", "%s has not returned %v after it started although a keep-alive ping stayed unanswered for good; parked %v", sc.action, horizon-call.Started, s.ParkedLabels())
		}
		var sb strings.Builder
		for _, x := range sent {
			fmt.Fprintf(&sb, "%v:%s/%s;", x.at, x.p.Name(), x.state)
		}
		out := strings.Join(glog, ",") + "|" + sb.String()
		if call != nil {
			out += fmt.Sprintf("=>%t:%s", call.Returned, call.Err)
		}
		c.SetResponder(func(p refsn.Pkt, n int) [][]byte {
			if a := ack(p); a != nil {
				return [][]byte{a}
			}
			return nil
		})
		c.Finish()
		return out, vs
	})
	return res
}

func c33scenarios() []c33sc {
	var out []c33sc
	// KeepAlive 4 s: longer than a whole PINGREQ exchange; 2 s: a tick can come due while the previous ping is still in flight
	for _, ka := range []time.Duration{4 * time.Second, 2 * time.Second} {
		out = append(out, c33sc{"none", 0, ka, 0})
		last := 9
		if ka == 2*time.Second {
			last = 5
		}
		for _, a := range []string{"Sleep(3s)", "Sleep(6s)", "Disconnect", "Publish q1", "Ping"} {
			for x := 0; x <= last; x++ {
				out = append(out, c33sc{a, time.Duration(x)*time.Second + 500*time.Millisecond, ka, 0})
			}
		}
	}
	for _, ka := range []time.Duration{4 * time.Second, 2 * time.Second} {
		for _, at := range []time.Duration{1500 * time.Millisecond, 3500 * time.Millisecond} {
			out = append(out, c33sc{"Sleep(3s)+Ping", at, ka, 0})
		}
	}
	// a sleep period shorter than the retry delay: the client falls asleep and wakes up again within one
	// unanswered keep-alive exchange
	for _, a := range []string{"Sleep(1s)", "Sleep(2s)"} {
		for x := 3; x <= 5; x++ {
			out = append(out, c33sc{a, time.Duration(x)*time.Second + 500*time.Millisecond, 4 * time.Second, 3 * time.Second})
		}
	}
	return out
}

func TestC33(t *testing.T) {
	var scs []explore.Scenario
	for _, sc := range c33scenarios() {
		sc := sc
		scs = append(scs, explore.Scenario{Name: sc.name(), Run: func(p []int) explore.ExecResult { return runC33(t, sc, sc.ka, p) }})
	}
	if explore.IsWorker() {
		explore.ServeScenarios(scs)
		return
	}
	rep := explore.NewReport("C33", "model_checking")
	// differential baseline: without the keep-alive loop every action succeeds against a prompt gateway
	for _, sc := range c33scenarios() {
		first := sc.at == 500*time.Millisecond || (sc.action == "Sleep(3s)+Ping" && sc.at == 1500*time.Millisecond)
		if sc.action == "none" || !first || sc.ka != c33KeepAlive {
			continue
		}
		r := runC33(t, sc, 0, nil)
		if !strings.HasSuffix(r.Outcome, "=>true:") {
			rep.HarnessErr = "baseline without keep-alive: " + sc.action + " does not succeed: " + r.Outcome
		}
	}
	explore.RunScenarios(rep, scs, explore.ScenarioOpts{Test: "TestC33", QuickBound: 2, ThoroughFrom: 2, ThoroughMax: 4,
		QuickBudget: 150 * time.Second, ThoroughBudge: 12 * time.Minute})
	rep.Coverage["rule"] = "KeepAlive 4 s and 2 s (a tick can come due while the previous ping is in flight), RetryDelay 1 s, RetryCount 2; after Connect one API action (Sleep 3 s / Sleep 6 s / Disconnect / Publish q1 / Ping / none) at t = 0.5 .. 9.5 s (0.5 .. 5.5 s for KeepAlive 2 s), plus Sleep 1 s / 2 s with RetryDelay 3 s (asleep and awake again within one keep-alive exchange); the gateway answers each keep-alive PINGREQ at once / 1 s late / 2 s late / never a DISCONNECT(d) at once / 1 s late (0.5 s late too for the DISCONNECT(d) reply, the instant of a tick), the reply to the plain DISCONNECT at once / 1 s / 2.5 s late, plus Sleep 3 s followed by a Ping at t = 1.5 / 3.5 s; all combinations of these answers, of thread interleavings (API thread, receive loop, keep-alive loop, timer goroutines), of orders of timers due at the same instant and of ready select cases within the deviation bound, run to a 20 s horizon. Checked: no PINGREQ without client id is written while the client state is asleep or disconnected, nor after the client's plain DISCONNECT has gone out (whatever its own state variable says); while active PINGREQs are at most KeepAlive apart (when every ping is answered); with every ping answered the API call returns nil as it does without the keep-alive loop, and it returns in any case"
	rep.Assumptions = []string{"virtual time; timers on whole seconds, actions on half seconds", "client state sampled at every scheduling step", "keep-alive PINGREQ = PINGREQ without client id"}
	rep.Finish()
}
