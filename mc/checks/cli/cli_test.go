// Package cli is the configuration enumerator (DESIGN 2.5): the three bisquitt
// binaries are built from /repo's current tree and executed once per
// configuration against loopback peers owned by the harness (a UDP "gateway"
// and a TCP "broker" that answer at once).  Observed: exit status and the first
// datagrams / packets.  No wall-clock oracle: absence of a packet is established
// by seeing the next packet in protocol order; a harness deadline that expires
// makes the run inconclusive (exhaustive:false), never a violation.
package cli

import (
	"bytes"
	"fmt"
	"net"
	"os"
	"os/exec"
	"path/filepath"
	"sort"
	"strings"
	"sync"
	"time"

	"verif/mc/ref/refmqtt"
	"verif/mc/ref/refsn"
)

const deadline = 10 * time.Second

var (
	binOnce sync.Once
	binDir  string
	binErr  error
)

// buildTools builds the three binaries from /repo's working tree with the
// repository's own toolchain.
func buildTools() (string, error) {
	binOnce.Do(func() {
		repo := os.Getenv("VERIF_REPO")
		if repo == "" {
			repo = "/repo"
		}
		base := os.Getenv("VERIF_SCRATCH")
		if base == "" {
			base = os.TempDir()
		}
		binDir, binErr = os.MkdirTemp(base, "clibin")
		if binErr != nil {
			return
		}
		cmd := exec.Command("go", "build", "-o", binDir+"/", "./cmd/bisquitt", "./cmd/bisquitt-pub", "./cmd/bisquitt-sub")
		cmd.Dir = repo
		cmd.Env = append(os.Environ(), "GOFLAGS=-mod=mod", "GOPROXY=off", "GOSUMDB=off", "GOTOOLCHAIN=local")
		if out, err := cmd.CombinedOutput(); err != nil {
			binErr = fmt.Errorf("building the tools: %v\n%s", err, out)
		}
	})
	return binDir, binErr
}

// ---- fake MQTT-SN gateway (for bisquitt-pub / bisquitt-sub) ----

type snGateway struct {
	conn *net.UDPConn
	mu   sync.Mutex
	got  []refsn.Pkt
	raw  [][]byte
	ch   chan struct{}
}

func newSNGateway() (*snGateway, error) {
	c, err := net.ListenUDP("udp4", &net.UDPAddr{IP: net.IPv4(127, 0, 0, 1)})
	if err != nil {
		return nil, err
	}
	g := &snGateway{conn: c, ch: make(chan struct{}, 64)}
	go g.loop()
	return g, nil
}

func (g *snGateway) port() int { return g.conn.LocalAddr().(*net.UDPAddr).Port }
func (g *snGateway) close()    { g.conn.Close() }

func (g *snGateway) loop() {
	buf := make([]byte, 9000)
	for {
		n, addr, err := g.conn.ReadFromUDP(buf)
		if err != nil {
			return
		}
		b := append([]byte(nil), buf[:n]...)
		p, derr := refsn.Decode(b)
		g.mu.Lock()
		g.raw = append(g.raw, b)
		if derr == nil {
			g.got = append(g.got, p)
		} else {
			g.got = append(g.got, refsn.Pkt{Type: 0xFF})
		}
		g.mu.Unlock()
		select {
		case g.ch <- struct{}{}:
		default:
		}
		if derr != nil {
			continue
		}
		var r *refsn.Pkt
		switch p.Type {
		case refsn.CONNECT:
			r = &refsn.Pkt{Type: refsn.CONNACK}
		case refsn.REGISTER:
			r = &refsn.Pkt{Type: refsn.REGACK, TopicID: 77, MsgID: p.MsgID}
		case refsn.SUBSCRIBE:
			r = &refsn.Pkt{Type: refsn.SUBACK, TopicID: 78, MsgID: p.MsgID, QoS: p.QoS}
		case refsn.PUBLISH:
			if p.QoS == 1 {
				r = &refsn.Pkt{Type: refsn.PUBACK, TopicID: p.TopicID, MsgID: p.MsgID}
			}
		case refsn.PINGREQ:
			r = &refsn.Pkt{Type: refsn.PINGRESP}
		case refsn.DISCONNECT:
			r = &refsn.Pkt{Type: refsn.DISCONNECT}
		}
		if r != nil {
			g.conn.WriteToUDP(r.Encode(), addr)
		}
	}
}

// waitFor blocks until pred is true for the received datagrams, the process has exited, or the deadline.
func (g *snGateway) waitFor(done <-chan struct{}, pred func(got []refsn.Pkt, raw [][]byte) bool) (ok, exited bool) {
	t := time.NewTimer(deadline)
	defer t.Stop()
	for {
		g.mu.Lock()
		ok := pred(g.got, g.raw)
		g.mu.Unlock()
		if ok {
			return true, false
		}
		select {
		case <-g.ch:
		case <-done:
			// the process is gone: whatever it sent has been queued before it exited; drain
			time.Sleep(20 * time.Millisecond)
			g.mu.Lock()
			ok := pred(g.got, g.raw)
			g.mu.Unlock()
			return ok, true
		case <-t.C:
			return false, false
		}
	}
}

func (g *snGateway) snapshot() []refsn.Pkt {
	g.mu.Lock()
	defer g.mu.Unlock()
	return append([]refsn.Pkt(nil), g.got...)
}

// ---- fake MQTT broker (for the bisquitt gateway binary) ----

type mqBroker struct {
	ln   net.Listener
	mu   sync.Mutex
	got  []refmqtt.Pkt // of all connections, in arrival order
	ch   chan struct{}
	conn int
}

func newMQBroker() (*mqBroker, error) {
	ln, err := net.Listen("tcp4", "127.0.0.1:0")
	if err != nil {
		return nil, err
	}
	b := &mqBroker{ln: ln, ch: make(chan struct{}, 64)}
	go func() {
		for {
			c, err := ln.Accept()
			if err != nil {
				return
			}
			b.mu.Lock()
			b.conn++
			b.mu.Unlock()
			go b.serve(c)
		}
	}()
	return b, nil
}

func (b *mqBroker) port() int { return b.ln.Addr().(*net.TCPAddr).Port }
func (b *mqBroker) close()    { b.ln.Close() }

func (b *mqBroker) serve(c net.Conn) {
	defer c.Close()
	var buf []byte
	tmp := make([]byte, 4096)
	for {
		n, err := c.Read(tmp)
		if err != nil {
			return
		}
		buf = append(buf, tmp[:n]...)
		pk, rest, perr := refmqtt.ParseAll(buf)
		if perr != nil {
			return
		}
		buf = append([]byte(nil), rest...)
		for _, p := range pk {
			b.mu.Lock()
			b.got = append(b.got, p)
			b.mu.Unlock()
			select {
			case b.ch <- struct{}{}:
			default:
			}
			switch p.Type {
			case refmqtt.CONNECT:
				c.Write(refmqtt.EncConnack(0))
			case refmqtt.SUBSCRIBE:
				c.Write(refmqtt.EncSuback(p.ID, p.QoSs...))
			case refmqtt.PINGREQ:
				c.Write(refmqtt.EncPingresp())
			case refmqtt.PUBLISH:
				if p.QoS == 1 {
					c.Write(refmqtt.EncPuback(p.ID))
				}
			}
		}
	}
}

func (b *mqBroker) snapshot() []refmqtt.Pkt {
	b.mu.Lock()
	defer b.mu.Unlock()
	return append([]refmqtt.Pkt(nil), b.got...)
}

// ---- process runner ----

type proc struct {
	cmd    *exec.Cmd
	done   chan struct{}
	out    bytes.Buffer
	exited bool
	code   int
}

func start(bin string, args []string, env []string) (*proc, error) {
	dir, err := buildTools()
	if err != nil {
		return nil, err
	}
	p := &proc{cmd: exec.Command(filepath.Join(dir, bin), args...), done: make(chan struct{})}
	// a clean environment: the tools read many flags from environment variables
	p.cmd.Env = append([]string{"PATH=" + os.Getenv("PATH"), "HOME=" + os.TempDir()}, env...)
	p.cmd.Stdout = &p.out
	p.cmd.Stderr = &p.out
	if err := p.cmd.Start(); err != nil {
		return nil, err
	}
	go func() {
		err := p.cmd.Wait()
		p.code = 0
		if err != nil {
			p.code = 1
			if ee, ok := err.(*exec.ExitError); ok && ee.ExitCode() > 0 {
				p.code = ee.ExitCode()
			}
		}
		p.exited = true
		close(p.done)
	}()
	return p, nil
}

func (p *proc) kill() {
	select {
	case <-p.done:
	default:
		p.cmd.Process.Kill()
		<-p.done
	}
}

func (p *proc) output() string {
	s := p.out.String()
	if len(s) > 1500 {
		s = s[:300] + " ... " + s[len(s)-1200:]
	}
	return strings.TrimSpace(s)
}

// ---- predefined-topic configurations (C30) ----

type entry struct {
	Client string
	ID     int
	Name   string
}

type config struct {
	File    []entry  // nil: no file option at all
	HasFile bool
	Opts    []string // --predefined-topic values, in order
	Env     bool     // spell the options as environment variables
}

func (c config) String() string {
	f := "no file"
	if c.HasFile {
		var e []string
		for _, x := range c.File {
			e = append(e, fmt.Sprintf("%s:%d=%s", x.Client, x.ID, x.Name))
		}
		f = "file{" + strings.Join(e, " ") + "}"
	}
	how := "flags"
	if c.Env {
		how = "env"
	}
	return fmt.Sprintf("%s opts%v (%s)", f, c.Opts, how)
}

func (c config) yaml() string {
	by := map[string][]entry{}
	for _, e := range c.File {
		by[e.Client] = append(by[e.Client], e)
	}
	var cl []string
	for k := range by {
		cl = append(cl, k)
	}
	sort.Strings(cl)
	var sb strings.Builder
	sb.WriteString("---\n")
	for _, k := range cl {
		fmt.Fprintf(&sb, "%q:\n", k)
		for _, e := range by[k] {
			fmt.Fprintf(&sb, "  %d: %s\n", e.ID, e.Name)
		}
	}
	return sb.String()
}

// reference (written from the documentation): the file's mapping, overridden
// entry by entry by the options in order; options without a client id go to "*".
func (c config) ref() map[string]map[int]string {
	m := map[string]map[int]string{}
	put := func(cl string, id int, name string) {
		if m[cl] == nil {
			m[cl] = map[int]string{}
		}
		m[cl][id] = name
	}
	for _, e := range c.File {
		put(e.Client, e.ID, e.Name)
	}
	for _, o := range c.Opts {
		f := strings.Split(o, ";")
		var id int
		if len(f) == 2 {
			fmt.Sscan(f[1], &id)
			put("*", id, f[0])
		} else {
			fmt.Sscan(f[2], &id)
			put(f[0], id, f[1])
		}
	}
	return m
}

func refName(m map[string]map[int]string, client string, id int) (string, bool) {
	if n, ok := m[client][id]; ok {
		return n, true
	}
	n, ok := m["*"][id]
	return n, ok
}

// refIDs: the ids that denote name for the client (any of them is a correct translation of the name).
func refIDs(m map[string]map[int]string, client, name string) map[int]bool {
	out := map[int]bool{}
	for _, cl := range []string{client, "*"} {
		for id := range m[cl] {
			if n, ok := refName(m, client, id); ok && n == name {
				out[id] = true
			}
		}
	}
	return out
}

// args returns command line arguments and environment for the configuration.
func (c config) args(dir string, tag string) (args, env []string, err error) {
	if c.HasFile {
		path := filepath.Join(dir, "topics-"+tag+".yaml")
		if err := os.WriteFile(path, []byte(c.yaml()), 0o644); err != nil {
			return nil, nil, err
		}
		if c.Env {
			env = append(env, "PREDEFINED_TOPICS_FILE="+path)
		} else {
			args = append(args, "--predefined-topics-file", path)
		}
	}
	if len(c.Opts) > 0 {
		if c.Env {
			env = append(env, "PREDEFINED_TOPIC="+strings.Join(c.Opts, ","))
		} else {
			for _, o := range c.Opts {
				args = append(args, "--predefined-topic", o)
			}
		}
	}
	return
}
