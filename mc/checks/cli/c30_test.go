package cli

import (
	"fmt"
	"net"
	"os"
	"sort"
	"strings"
	"sync"
	"testing"
	"time"

	"verif/mc/explore"
	"verif/mc/ref/refmqtt"
	"verif/mc/ref/refsn"
)

// ---- C30: predefined-topic configuration means the same in every tool ----------------

var c30names = []string{"t/1", "t/2"}

func c30files(maxEntries int) []config {
	slots := []struct {
		cl string
		id int
	}{{"c1", 1}, {"c1", 2}, {"*", 1}, {"*", 2}}
	out := []config{{}} // no file at all
	for code := 1; code < 81; code++ {
		var es []entry
		c := code
		for _, s := range slots {
			if k := c % 3; k > 0 {
				es = append(es, entry{s.cl, s.id, c30names[k-1]})
			}
			c /= 3
		}
		if len(es) <= maxEntries {
			out = append(out, config{File: es, HasFile: true})
		}
	}
	return out
}

var c30opts = []string{"t/1;1", "t/2;1", "c1;t/1;2", "c1;t/2;1"}

func c30optLists(maxLen int) [][]string {
	out := [][]string{nil}
	if maxLen >= 1 {
		for _, a := range c30opts {
			out = append(out, []string{a})
		}
	}
	if maxLen >= 2 {
		for _, a := range c30opts {
			for _, b := range c30opts {
				out = append(out, []string{a, b})
			}
		}
	}
	return out
}

func c30configs(thorough bool) []config {
	var out []config
	add := func(files []config, lists [][]string) {
		for _, f := range files {
			for _, l := range lists {
				c := f
				c.Opts = l
				out = append(out, c)
			}
		}
	}
	if thorough {
		add(c30files(3), c30optLists(2))
	} else {
		add(c30files(2), c30optLists(1))
		add(c30files(1), c30optLists(2)[5:])
	}
	// an option given again after a conflicting one (a, b, a): the list is ordered, the last occurrence decides
	var aba [][]string
	for _, a := range c30opts {
		for _, b := range c30opts {
			if a != b {
				aba = append(aba, []string{a, b, a})
			}
		}
	}
	add([]config{{}}, aba)
	// alternate flag / environment spelling (thorough: both)
	var res []config
	for i, c := range out {
		if thorough {
			c.Env = false
			res = append(res, c)
			c.Env = true
			res = append(res, c)
		} else {
			c.Env = i%2 == 1
			res = append(res, c)
		}
	}
	return res
}

type c30obs struct {
	pub   map[string]string // name -> "predef:<id>" | "register" | "exit:<code> <output>" | "inconclusive"
	sub   map[string]string
	gw    map[int]string // id -> filter seen by the broker | "refused" | ...
	incon bool
}

func runPub(c config, dir, tag, name, client string) string {
	g, err := newSNGateway()
	if err != nil {
		return "inconclusive: " + err.Error()
	}
	defer g.close()
	args, env, err := c.args(dir, tag)
	if err != nil {
		return "inconclusive: " + err.Error()
	}
	args = append([]string{"--host", "127.0.0.1", "--port", fmt.Sprint(g.port()), "--client-id", client, "-t", name, "-m", "x"}, args...)
	p, err := start("bisquitt-pub", args, env)
	if err != nil {
		return "inconclusive: " + err.Error()
	}
	defer p.kill()
	res := ""
	ok, exited := g.waitFor(p.done, func(got []refsn.Pkt, _ [][]byte) bool {
		for _, d := range got {
			switch {
			case d.Type == refsn.REGISTER:
				res = "register:" + d.Str
				return true
			case d.Type == refsn.PUBLISH && d.TIT == 1:
				res = fmt.Sprintf("predef:%d", d.TopicID)
				return true
			case d.Type == refsn.PUBLISH:
				res = fmt.Sprintf("publish-tit%d:%d", d.TIT, d.TopicID)
				return true
			}
		}
		return false
	})
	switch {
	case ok:
		return res
	case exited:
		return fmt.Sprintf("exit:%d %s", p.code, p.output())
	}
	return "inconclusive: deadline"
}

func runSub(c config, dir, tag, client string) map[string]string {
	out := map[string]string{}
	fail := func(s string) map[string]string {
		for _, n := range c30names {
			out[n] = s
		}
		return out
	}
	g, err := newSNGateway()
	if err != nil {
		return fail("inconclusive: " + err.Error())
	}
	defer g.close()
	args, env, err := c.args(dir, tag)
	if err != nil {
		return fail("inconclusive: " + err.Error())
	}
	args = append([]string{"--host", "127.0.0.1", "--port", fmt.Sprint(g.port()), "--client-id", client, "-t", c30names[0], "-t", c30names[1]}, args...)
	p, err := start("bisquitt-sub", args, env)
	if err != nil {
		return fail("inconclusive: " + err.Error())
	}
	defer p.kill()
	var subs []refsn.Pkt
	ok, exited := g.waitFor(p.done, func(got []refsn.Pkt, _ [][]byte) bool {
		subs = subs[:0]
		for _, d := range got {
			if d.Type == refsn.SUBSCRIBE {
				subs = append(subs, d)
			}
		}
		return len(subs) >= len(c30names)
	})
	if !ok {
		if exited {
			return fail(fmt.Sprintf("exit:%d %s", p.code, p.output()))
		}
		return fail("inconclusive: deadline")
	}
	// the tool subscribes in the order of its -t options
	for i, n := range c30names {
		d := subs[i]
		switch d.TIT {
		case 1:
			out[n] = fmt.Sprintf("predef:%d", d.TopicID)
		case 0:
			out[n] = "register:" + d.Str
		default:
			out[n] = fmt.Sprintf("subscribe-tit%d:%d", d.TIT, d.TopicID)
		}
	}
	return out
}

var (
	portMu   sync.Mutex
	nextPort = 21000 + (os.Getpid()%200)*100
)

// freeUDPPort hands out UDP ports for the gateway processes of this check: never the same port twice within
// this process (parallel runs must not end up talking to each other's gateway), each verified to be free.
func freeUDPPort() int {
	portMu.Lock()
	defer portMu.Unlock()
	for i := 0; i < 20000; i++ {
		nextPort++
		if nextPort > 32000 { // stay below the kernel's ephemeral range (32768-60999)
			nextPort = 21000
		}
		c, err := net.ListenUDP("udp4", &net.UDPAddr{IP: net.IPv4(127, 0, 0, 1), Port: nextPort})
		if err != nil {
			continue
		}
		c.Close()
		return nextPort
	}
	return 0
}

// snExchange sends a datagram (repeating it every 200 ms: the gateway may still be starting) and
// waits for a reply for which pred is true.
func snExchange(conn *net.UDPConn, send []byte, repeat bool, done <-chan struct{}, pred func(refsn.Pkt) bool) (refsn.Pkt, string) {
	end := time.Now().Add(deadline)
	buf := make([]byte, 9000)
	conn.Write(send)
	for try := 0; time.Now().Before(end); try++ {
		wait := 200 * time.Millisecond
		if repeat && try < 40 {
			wait = 15 * time.Millisecond // the gateway is probably still starting: ask again soon
		}
		conn.SetReadDeadline(time.Now().Add(wait))
		n, err := conn.Read(buf)
		if err != nil {
			select {
			case <-done:
				return refsn.Pkt{}, "exited"
			default:
			}
			if repeat {
				conn.Write(send)
			}
			continue
		}
		p, derr := refsn.Decode(buf[:n])
		if derr == nil && pred(p) {
			return p, ""
		}
	}
	return refsn.Pkt{}, "deadline"
}

// runGateway retries when the gateway could not bind its port (somebody else took it between the harness's
// test and the gateway's bind): that is the harness's business, not the tool's.
func runGateway(c config, dir, tag, client string) map[int]string {
	var out map[int]string
	for try := 0; try < 4; try++ {
		out = runGatewayOnce(c, dir, tag, client)
		if !strings.Contains(out[1]+out[2], "address already in use") {
			return out
		}
	}
	for id, v := range out {
		if strings.Contains(v, "address already in use") {
			out[id] = "inconclusive: no free port"
		}
	}
	return out
}

func runGatewayOnce(c config, dir, tag, client string) map[int]string {
	out := map[int]string{}
	fail := func(s string) map[int]string {
		out[1], out[2] = s, s
		return out
	}
	b, err := newMQBroker()
	if err != nil {
		return fail("inconclusive: " + err.Error())
	}
	defer b.close()
	port := freeUDPPort()
	args, env, err := c.args(dir, tag)
	if err != nil {
		return fail("inconclusive: " + err.Error())
	}
	args = append([]string{"--host", "127.0.0.1", "--port", fmt.Sprint(port), "--mqtt-host", "127.0.0.1", "--mqtt-port", fmt.Sprint(b.port())}, args...)
	p, err := start("bisquitt", args, env)
	if err != nil {
		return fail("inconclusive: " + err.Error())
	}
	defer p.kill()
	for _, id := range []int{1, 2} {
		conn, err := net.DialUDP("udp4", nil, &net.UDPAddr{IP: net.IPv4(127, 0, 0, 1), Port: port})
		if err != nil {
			out[id] = "inconclusive: " + err.Error()
			continue
		}
		connect := refsn.Pkt{Type: refsn.CONNECT, Clean: true, HasFlags: true, ProtoID: 1, Duration: 60, Data: []byte(client)}.Encode()
		if _, why := snExchange(conn, connect, true, p.done, func(r refsn.Pkt) bool { return r.Type == refsn.CONNACK }); why != "" {
			conn.Close()
			if why == "exited" {
				return fail(fmt.Sprintf("exit:%d %s", p.code, p.output()))
			}
			out[id] = "inconclusive: no CONNACK (" + why + ")"
			continue
		}
		n0 := len(b.snapshot())
		sub := refsn.Pkt{Type: refsn.SUBSCRIBE, HasFlags: true, TIT: 1, QoS: 0, TopicID: uint16(id), MsgID: 5}.Encode()
		r, why := snExchange(conn, sub, false, p.done, func(r refsn.Pkt) bool { return r.Type == refsn.SUBACK || r.Type == refsn.DISCONNECT })
		conn.Close()
		switch {
		case why != "":
			out[id] = "inconclusive: no answer to SUBSCRIBE (" + why + ")"
		case r.Type == refsn.DISCONNECT:
			out[id] = "refused"
		case r.RC != 0:
			out[id] = fmt.Sprintf("suback-rc%d", r.RC)
		default:
			out[id] = "subscribed-but-nothing-at-the-broker"
			for _, m := range b.snapshot()[n0:] {
				if m.Type == refmqtt.SUBSCRIBE && len(m.Filters) == 1 {
					out[id] = "filter:" + m.Filters[0]
				}
			}
		}
	}
	return out
}

func TestC30(t *testing.T) {
	rep := explore.NewReport("C30", "exploration")
	if _, err := buildTools(); err != nil {
		rep.HarnessErr = err.Error()
		rep.Finish()
		return
	}
	defer os.RemoveAll(binDir)
	dir, _ := os.MkdirTemp(os.Getenv("VERIF_SCRATCH"), "c30")
	defer os.RemoveAll(dir)
	thoroughTier := explore.Tier() == "thorough"
	cfgs := c30configs(thoroughTier)
	type result struct {
		c     config
		runs  int
		incon int
		viols []explore.Violation
		out   string
	}
	results := make([]result, len(cfgs))
	var wg sync.WaitGroup
	sem := make(chan struct{}, explore.Workers())
	for i, c := range cfgs {
		wg.Add(1)
		sem <- struct{}{}
		go func(i int, c config) {
			defer wg.Done()
			defer func() { <-sem }()
			r := result{c: c}
			ref := c.ref()
			tag := fmt.Sprint(i)
			add := func(sig, f string, a ...any) {
				r.viols = append(r.viols, explore.Violation{Property: "C30", Sig: sig, Detail: c.String() + ": " + fmt.Sprintf(f, a...)})
			}
			judgeName := func(tool, client, name, got string) {
				r.runs++
				ids := refIDs(ref, client, name)
				switch {
				case strings.HasPrefix(got, "inconclusive"):
					r.incon++
				case strings.HasPrefix(got, "exit:"):
					add(tool+":rejects-valid-configuration", "%s does not start: %s", tool, got)
				case len(ids) > 0:
					var id int
					if n, _ := fmt.Sscanf(got, "predef:%d", &id); n != 1 || !ids[id] {
						add(tool+":name-not-translated-by-the-configured-mapping", "%s for topic %q used %q; by the file and the options the name is predefined id %v for client %s", tool, name, got, keys(ids), client)
					}
				default:
					if got != "register:"+name {
						add(tool+":name-translated-although-not-predefined", "%s for topic %q used %q; by the file and the options the name is not predefined for client %s", tool, name, got, client)
					}
				}
			}
			var log []string
			clients := []string{"c1"}
			if thoroughTier || i%3 == 0 {
				clients = append(clients, "c2") // a client without entries of its own: only the "*" entries apply
			}
			for _, client := range clients {
				names := c30names
				if client != "c1" {
					names = c30names[:1]
				}
				for _, name := range names {
					got := runPub(c, dir, tag+"p"+client, name, client)
					judgeName("bisquitt-pub", client, name, got)
					log = append(log, "pub "+client+" "+name+"->"+got)
				}
				sub := runSub(c, dir, tag+"s"+client, client)
				for _, name := range c30names {
					judgeName("bisquitt-sub", client, name, sub[name])
					log = append(log, "sub "+client+" "+name+"->"+sub[name])
				}
				gwm := runGateway(c, dir, tag+"g"+client, client)
				for _, id := range []int{1, 2} {
					r.runs++
					got := gwm[id]
					want, ok := refName(ref, client, id)
					log = append(log, fmt.Sprintf("gw %s %d->%s", client, id, got))
					switch {
					case strings.HasPrefix(got, "inconclusive"):
						r.incon++
					case strings.HasPrefix(got, "exit:"):
						add("bisquitt:rejects-valid-configuration", "bisquitt does not start: %s", got)
					case ok && got != "filter:"+want:
						add("bisquitt:id-not-resolved-by-the-configured-mapping", "bisquitt resolved predefined id %d for client %s as %q; by the file and the options it is %q", id, client, got, want)
					case !ok && got != "refused":
						add("bisquitt:id-resolved-although-not-predefined", "bisquitt answered a SUBSCRIBE to predefined id %d with %q; by the file and the options the id denotes nothing for client %s", id, got, client)
					}
				}
			}
			r.out = strings.Join(log, "; ")
			results[i] = r
		}(i, c)
	}
	wg.Wait()
	runs, incon := 0, 0
	outs := map[string]bool{}
	var samples []string
	seen := map[string]bool{}
	for i, r := range results {
		runs += r.runs
		incon += r.incon
		outs[r.out] = true
		for _, v := range r.viols {
			if !seen[v.Sig] {
				seen[v.Sig] = true
				rep.Add(v)
			}
		}
		if i%97 == 3 && len(samples) < 4 {
			samples = append(samples, r.c.String()+" => "+r.out)
		}
	}
	rep.Coverage["evaluations"] = runs
	rep.Coverage["configurations"] = len(cfgs)
	rep.Coverage["distinct_nontrivial"] = len(outs)
	rep.Coverage["inconclusive"] = incon
	rep.Coverage["exhaustive"] = incon == 0
	rep.Coverage["samples"] = samples
	rep.Coverage["rule"] = "the three binaries built from the current tree; configurations = (plus, without a file, every option list a,b,a of two different options: the last occurrence decides) predefined-topics YAML files over clients {c1,*} x ids {1,2} x names {t/1,t/2} (quick: at most 2 entries, thorough: at most 3, and no file) x --predefined-topic lists of length 0..2 over {t/1;1, t/2;1, c1;t/1;2, c1;t/2;1} in both orders, given as flags or as environment variables; per configuration and client id (c1; c2 = a client without entries of its own): bisquitt-pub -t <name> (PUBLISH predefined id vs REGISTER on the wire), bisquitt-sub -t t/1 -t t/2 (SUBSCRIBE predefined id vs name), bisquitt with a harness client subscribing to predefined ids 1 and 2 (filter seen by the harness broker vs refusal); reference = file, overridden entry by entry by the options in order, two-field options under \"*\", client entry before \"*\". distinct_nontrivial = distinct observation vectors; evaluations = tool probes"
	rep.Assumptions = []string{"loopback peers answer at once; no timing is judged; a probe that meets the 10 s harness deadline is counted as inconclusive", "client ids c1 and (every third configuration in the quick tier) c2, a client that only the * entries apply to"}
	rep.Finish()
}

func keys(m map[int]bool) []int {
	var k []int
	for x := range m {
		k = append(k, x)
	}
	sort.Ints(k)
	return k
}
