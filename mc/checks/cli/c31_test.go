package cli

import (
	"bufio"
	"fmt"
	"os"
	"strings"
	"sync"
	"testing"
	"time"

	"verif/mc/explore"
	"verif/mc/ref/refsn"
)

// ---- C31 (tools part): credentials are never sent in plaintext unless explicitly allowed ----
//
// All combinations of --auth (gateway) resp. --user / --password (clients),
// --dtls (+ --self-signed) and --insecure, each spelled as flags and as
// environment variables.  Refusal is observed as a non-zero exit status with
// no datagram sent / no UDP socket bound; proceeding as the first datagrams
// (plaintext CONNECT [+ AUTH], or a DTLS handshake record) resp. the bound socket.

type c31combo struct {
	tool                        string
	auth, pass, dtls, insecure  bool // auth: --auth for the gateway, --user for the clients
	env                         bool
	// explicitFalse: a switch that is off is spelled out (--dtls=false, DTLS_ENABLED=false) instead of left out
	explicitFalse bool
}

func (c c31combo) String() string {
	a := "user"
	if c.tool == "bisquitt" {
		a = "auth"
	}
	how := "flags"
	if c.env {
		how = "env"
	}
	if c.explicitFalse {
		how += ", switches that are off given as false"
	}
	return fmt.Sprintf("%s %s=%t password=%t dtls=%t insecure=%t (%s)", c.tool, a, c.auth, c.pass, c.dtls, c.insecure, how)
}

func (c c31combo) args() (args, env []string) {
	flag := func(name, envName, val string) {
		if c.env {
			env = append(env, envName+"="+val)
		} else if val == "true" {
			args = append(args, "--"+name)
		} else {
			args = append(args, "--"+name, val)
		}
	}
	if c.auth {
		if c.tool == "bisquitt" {
			flag("auth", "AUTH", "true")
		} else {
			flag("user", "USERNAME", "u1")
		}
	}
	if c.pass && c.tool != "bisquitt" {
		flag("password", "PASSWORD", "p1")
	}
	off := func(name, envName string) {
		if c.explicitFalse {
			if c.env {
				env = append(env, envName+"=false")
			} else {
				args = append(args, "--"+name+"=false")
			}
		}
	}
	if c.dtls {
		flag("dtls", "DTLS_ENABLED", "true")
		flag("self-signed", "SELF_SIGNED", "true")
	} else {
		off("dtls", "DTLS_ENABLED")
	}
	if c.insecure {
		flag("insecure", "INSECURE", "true")
	} else {
		off("insecure", "INSECURE")
	}
	if !c.auth && c.tool == "bisquitt" {
		off("auth", "AUTH")
	}
	return
}

// udpBound reports whether a UDP socket is bound to the port on this host (/proc/net/udp).
func udpBound(port int) bool {
	f, err := os.Open("/proc/net/udp")
	if err != nil {
		return false
	}
	defer f.Close()
	want := fmt.Sprintf(":%04X", port)
	sc := bufio.NewScanner(f)
	for sc.Scan() {
		fs := strings.Fields(sc.Text())
		if len(fs) > 1 && strings.HasSuffix(fs[1], want) {
			return true
		}
	}
	return false
}

func runC31(c c31combo) string {
	r := ""
	for try := 0; try < 4; try++ {
		r = runC31once(c)
		if !strings.Contains(r, "address already in use") {
			return r
		}
	}
	return "inconclusive: no free port"
}

// runC31once returns what was observed: "refused", "plaintext:<datagram names>", "dtls-handshake", "listening", "inconclusive: ..."
func runC31once(c c31combo) string {
	args, env := c.args()
	if c.tool == "bisquitt" {
		b, err := newMQBroker()
		if err != nil {
			return "inconclusive: " + err.Error()
		}
		defer b.close()
		port := freeUDPPort()
		args = append([]string{"--host", "127.0.0.1", "--port", fmt.Sprint(port), "--mqtt-host", "127.0.0.1", "--mqtt-port", fmt.Sprint(b.port())}, args...)
		p, err := start("bisquitt", args, env)
		if err != nil {
			return "inconclusive: " + err.Error()
		}
		defer p.kill()
		end := time.Now().Add(deadline)
		for time.Now().Before(end) {
			if udpBound(port) {
				// the socket must be our gateway's: a process that refuses to start is gone a moment later, and a port
				// that is bound although our process has exited belongs to somebody else (a harness condition)
				select {
				case <-p.done:
					return "inconclusive: address already in use (port bound by another process)"
				case <-time.After(100 * time.Millisecond):
				}
				if udpBound(port) {
					return "listening"
				}
				continue
			}
			select {
			case <-p.done:
				if udpBound(port) {
					return "inconclusive: address already in use (port bound by another process)"
				}
				return fmt.Sprintf("refused:%d %s", p.code, p.output())
			case <-time.After(20 * time.Millisecond):
			}
		}
		return "inconclusive: deadline"
	}
	g, err := newSNGateway()
	if err != nil {
		return "inconclusive: " + err.Error()
	}
	defer g.close()
	args = append([]string{"--host", "127.0.0.1", "--port", fmt.Sprint(g.port()), "--client-id", "c1", "-t", "t/1"}, args...)
	if c.tool == "bisquitt-pub" {
		args = append(args, "-m", "x")
	}
	p, err := start(c.tool, args, env)
	if err != nil {
		return "inconclusive: " + err.Error()
	}
	defer p.kill()
	res := ""
	ok, exited := g.waitFor(p.done, func(got []refsn.Pkt, raw [][]byte) bool {
		if len(raw) == 0 {
			return false
		}
		if raw[0][0] == 0x16 && len(raw[0]) > 13 { // DTLS record: content type handshake
			res = "dtls-handshake"
			return true
		}
		// plaintext: wait for the first datagram after the connect exchange (REGISTER / PUBLISH / SUBSCRIBE)
		var names []string
		for _, d := range got {
			n := "UNDECODABLE"
			if d.Type != 0xFF {
				n = d.Name()
				if d.Type == refsn.AUTH {
					n += "(" + d.Str + ":" + strings.ReplaceAll(string(d.Data), "\x00", "|") + ")"
				}
			}
			names = append(names, n)
			if d.Type == refsn.REGISTER || d.Type == refsn.PUBLISH || d.Type == refsn.SUBSCRIBE {
				res = "plaintext:" + strings.Join(names, ",")
				return true
			}
		}
		return false
	})
	switch {
	case ok:
		return res
	case exited && len(g.snapshot()) == 0:
		return fmt.Sprintf("refused:%d %s", p.code, p.output())
	case exited:
		return fmt.Sprintf("exited-after-sending:%d datagrams %s", len(g.snapshot()), p.output())
	}
	return "inconclusive: deadline"
}

func TestC31(t *testing.T) {
	rep := explore.NewReport("C31", "exploration")
	if _, err := buildTools(); err != nil {
		rep.HarnessErr = err.Error()
		rep.Finish()
		return
	}
	defer os.RemoveAll(binDir)
	var combos []c31combo
	for _, tool := range []string{"bisquitt", "bisquitt-pub", "bisquitt-sub"} {
		for m := 0; m < 32; m++ {
			c := c31combo{tool: tool, auth: m&1 != 0, pass: m&2 != 0, dtls: m&4 != 0, insecure: m&8 != 0, env: m&16 != 0}
			if tool == "bisquitt" && c.pass {
				continue // the gateway has no --password of its own
			}
			combos = append(combos, c)
			if !c.pass && !(c.dtls && c.insecure) {
				c.explicitFalse = true
				combos = append(combos, c)
			}
		}
	}
	obs := make([]string, len(combos))
	var wg sync.WaitGroup
	sem := make(chan struct{}, explore.Workers())
	for i, c := range combos {
		wg.Add(1)
		sem <- struct{}{}
		go func(i int, c c31combo) {
			defer wg.Done()
			defer func() { <-sem }()
			obs[i] = runC31(c)
		}(i, c)
	}
	wg.Wait()
	incon := 0
	outs := map[string]bool{}
	var samples []string
	for i, c := range combos {
		got := obs[i]
		outs[c.tool+":"+strings.SplitN(got, " ", 2)[0]] = true
		if i%7 == 0 && len(samples) < 8 {
			samples = append(samples, c.String()+" => "+got)
		}
		add := func(sig, f string, a ...any) {
			rep.Add(explore.Violation{Property: "C31", Sig: sig, Detail: c.String() + ": " + fmt.Sprintf(f, a...)})
		}
		mustRefuse := c.auth && !c.dtls && !c.insecure
		switch {
		case strings.HasPrefix(got, "inconclusive"):
			incon++
		case mustRefuse && !strings.HasPrefix(got, "refused"):
			add(c.tool+":starts-with-plaintext-credentials", "the tool must refuse to start (authentication without DTLS and without --insecure) but: %s", got)
		case !mustRefuse && strings.HasPrefix(got, "refused"):
			add(c.tool+":refuses-allowed-configuration", "the tool must start but: %s", got)
		case !mustRefuse && c.tool != "bisquitt":
			switch {
			case c.dtls && got != "dtls-handshake":
				add(c.tool+":no-dtls-handshake", "DTLS requested but the first datagram is not a DTLS handshake record: %s", got)
			case !c.dtls && c.auth:
				want := "plaintext:CONNECT,AUTH(PLAIN:|u1|"
				if c.pass {
					want += "p1"
				}
				if !strings.HasPrefix(got, want+")") {
					add(c.tool+":auth-not-right-after-connect", "with a user the client must send CONNECT and then AUTH with its credentials; observed %s", got)
				}
			case !c.dtls && !c.auth:
				if strings.Contains(got, "AUTH") || !strings.HasPrefix(got, "plaintext:CONNECT,") {
					add(c.tool+":auth-without-user", "without a user no AUTH may be sent; observed %s", got)
				}
			}
		}
	}
	rep.Coverage["evaluations"] = len(combos)
	rep.Coverage["distinct_nontrivial"] = len(outs)
	rep.Coverage["inconclusive"] = incon
	rep.Coverage["exhaustive"] = incon == 0
	rep.Coverage["samples"] = samples
	rep.Coverage["rule"] = "the three binaries built from the current tree, once per combination of --auth (bisquitt) resp. --user/--password (bisquitt-pub, bisquitt-sub), --dtls with --self-signed, --insecure, each spelled as flags and as environment variables, switches that are off both left out and given explicitly as false (--dtls=false, DTLS_ENABLED=false; 116 runs) against loopback peers: the tool must exit non-zero without sending a datagram / binding its UDP socket exactly when authentication is requested without DTLS and without --insecure; otherwise it must proceed: gateway socket bound; clients: a DTLS handshake record first (DTLS) or plaintext CONNECT immediately followed by AUTH with the credentials (user) or no AUTH at all up to the first REGISTER/PUBLISH/SUBSCRIBE (no user). distinct_nontrivial = distinct (tool, observation class) pairs"
	rep.Assumptions = []string{"no timing is judged; the 10 s harness deadline makes a run inconclusive", "DTLS runs stop at the first handshake record / the bound socket"}
	rep.Finish()
}
