package cli

import (
	"fmt"
	"net"
	"os"
	"strings"
	"sync"
	"testing"
	"time"

	"verif/mc/explore"
	"verif/mc/ref/refmqtt"
	"verif/mc/ref/refsn"
)

// ---- C15 (real listener part): two clients of the real gateway binary over loopback UDP ----
//
// The part of session isolation that lives in Gateway.ListenAndServe and in the
// per-peer demultiplexing below it cannot be reached with injected conns.  Here
// the bisquitt binary built from the current tree serves two UDP sockets and a
// harness TCP broker; two scripted sessions run in every interleaving of their
// steps and each session's observation log must equal its log when it runs
// alone (differential; only event order is observed, no timing is judged).

type rstep struct {
	name    string
	dgram   func(s *rsession) []byte
	barrier func(p refsn.Pkt) bool // the reply that ends the step
	final   bool                   // the session is over after this step
}

type rscript struct {
	name  string
	steps []rstep
}

type rsession struct {
	ended  bool
	id     string
	conn   *net.UDPConn
	regTID uint16
	log    []string
}

func rscripts() []rscript {
	connect := rstep{"CONNECT", func(s *rsession) []byte {
		return refsn.Pkt{Type: refsn.CONNECT, HasFlags: true, Clean: true, ProtoID: 1, Duration: 60, Data: []byte(s.id)}.Encode()
	}, func(p refsn.Pkt) bool { return p.Type == refsn.CONNACK }, false}
	ping := rstep{"PINGREQ", func(s *rsession) []byte { return refsn.Pkt{Type: refsn.PINGREQ}.Encode() },
		func(p refsn.Pkt) bool { return p.Type == refsn.PINGRESP }, false}
	disconnect := rstep{"DISCONNECT", func(s *rsession) []byte { return refsn.Pkt{Type: refsn.DISCONNECT}.Encode() },
		func(p refsn.Pkt) bool { return p.Type == refsn.DISCONNECT }, true}
	register := rstep{"REGISTER t/same", func(s *rsession) []byte {
		return refsn.Pkt{Type: refsn.REGISTER, MsgID: 5, Str: "t/same"}.Encode()
	}, func(p refsn.Pkt) bool { return p.Type == refsn.REGACK }, false}
	publish := rstep{"PUBLISH registered q1", func(s *rsession) []byte {
		return refsn.Pkt{Type: refsn.PUBLISH, HasFlags: true, QoS: 1, TIT: 0, TopicID: s.regTID, MsgID: 6, Data: []byte("from-" + s.id)}.Encode()
	}, func(p refsn.Pkt) bool { return p.Type == refsn.PUBACK }, false}
	subscribe := rstep{"SUBSCRIBE w/#", func(s *rsession) []byte {
		return refsn.Pkt{Type: refsn.SUBSCRIBE, HasFlags: true, QoS: 1, TIT: 0, MsgID: 7, Str: "w/#"}.Encode()
	}, func(p refsn.Pkt) bool { return p.Type == refsn.SUBACK }, false}
	sleep := rstep{"DISCONNECT(5)", func(s *rsession) []byte {
		return refsn.Pkt{Type: refsn.DISCONNECT, HasDur: true, Duration: 5}.Encode()
	}, func(p refsn.Pkt) bool { return p.Type == refsn.DISCONNECT }, false}
	wake := rstep{"PINGREQ(id)", func(s *rsession) []byte { return refsn.Pkt{Type: refsn.PINGREQ, Data: []byte(s.id)}.Encode() },
		func(p refsn.Pkt) bool { return p.Type == refsn.PINGRESP }, false}
	garbage := rstep{"undecodable datagram", func(s *rsession) []byte { return []byte{0x07} },
		func(p refsn.Pkt) bool { return p.Type == refsn.DISCONNECT }, true}
	return []rscript{
		{"connect register publish disconnect", []rstep{connect, register, publish, disconnect}},
		{"connect subscribe ping ping", []rstep{connect, subscribe, ping, ping}},
		{"connect ping garbage", []rstep{connect, ping, garbage}},
		{"connect sleep wake ping-less", []rstep{connect, sleep, wake, wake}},
		{"connect disconnect", []rstep{connect, disconnect}},
	}
}

// session-aware broker: packets and EOF per client id
type sbroker struct {
	ln     net.Listener
	mu     sync.Mutex
	pkts   map[string][]string
	closed map[string]bool
	conns  int
	ev     chan struct{}
}

func newSBroker() (*sbroker, error) {
	ln, err := net.Listen("tcp4", "127.0.0.1:0")
	if err != nil {
		return nil, err
	}
	b := &sbroker{ln: ln, pkts: map[string][]string{}, closed: map[string]bool{}, ev: make(chan struct{}, 256)}
	go func() {
		for {
			c, err := ln.Accept()
			if err != nil {
				return
			}
			b.mu.Lock()
			b.conns++
			b.mu.Unlock()
			go b.serve(c)
		}
	}()
	return b, nil
}

func (b *sbroker) notify() {
	select {
	case b.ev <- struct{}{}:
	default:
	}
}

func (b *sbroker) serve(c net.Conn) {
	defer c.Close()
	id := ""
	var buf []byte
	tmp := make([]byte, 4096)
	for {
		n, err := c.Read(tmp)
		if err != nil {
			if id != "" {
				b.mu.Lock()
				b.closed[id] = true
				b.mu.Unlock()
				b.notify()
			}
			return
		}
		buf = append(buf, tmp[:n]...)
		pk, rest, perr := refmqtt.ParseAll(buf)
		if perr != nil {
			return
		}
		buf = append([]byte(nil), rest...)
		for _, p := range pk {
			if p.Type == refmqtt.CONNECT {
				id = p.ClientID
			}
			b.mu.Lock()
			switch p.Type {
			case refmqtt.PUBLISH:
				b.pkts[id] = append(b.pkts[id], fmt.Sprintf("PUBLISH(%s,%q,q%d)", p.Topic, p.Payload, p.QoS))
			case refmqtt.SUBSCRIBE:
				b.pkts[id] = append(b.pkts[id], fmt.Sprintf("SUBSCRIBE%v", p.Filters))
			case refmqtt.PINGREQ:
				// the gateway's own keep-alive pings for a sleeping client come from a goroutine of their own and
				// are not ordered with the session's other packets (their timing is C12's subject): not compared
			default:
				b.pkts[id] = append(b.pkts[id], p.Name())
			}
			b.mu.Unlock()
			switch p.Type {
			case refmqtt.CONNECT:
				c.Write(refmqtt.EncConnack(0))
			case refmqtt.SUBSCRIBE:
				c.Write(refmqtt.EncSuback(p.ID, p.QoSs...))
			case refmqtt.PINGREQ:
				c.Write(refmqtt.EncPingresp())
			case refmqtt.PUBLISH:
				if p.QoS == 1 {
					c.Write(refmqtt.EncPuback(p.ID))
				}
			}
			b.notify()
		}
	}
}

func (b *sbroker) state(id string) (n int, closed bool, all []string) {
	b.mu.Lock()
	defer b.mu.Unlock()
	return len(b.pkts[id]), b.closed[id], append([]string(nil), b.pkts[id]...)
}

// runReal runs one interleaving (order[i]: 0 = next step of A, 1 = next step of B; a nil script = absent session)
// against a fresh gateway process.  Returns the two observation logs.
func runReal(a, b *rscript, order []int) (logA, logB string, inconclusive string) {
	for try := 0; try < 4; try++ {
		logA, logB, inconclusive = runRealOnce(a, b, order)
		if !strings.Contains(inconclusive, "address already in use") {
			break
		}
	}
	return
}

func runRealOnce(a, b *rscript, order []int) (logA, logB string, inconclusive string) {
	br, err := newSBroker()
	if err != nil {
		return "", "", err.Error()
	}
	defer br.ln.Close()
	port := freeUDPPort()
	p, err := start("bisquitt", []string{"--host", "127.0.0.1", "--port", fmt.Sprint(port), "--mqtt-host", "127.0.0.1", "--mqtt-port", fmt.Sprint(br.ln.Addr().(*net.TCPAddr).Port)}, nil)
	if err != nil {
		return "", "", err.Error()
	}
	defer p.kill()
	// wait for the listener
	end := time.Now().Add(deadline)
	for !udpBound(port) {
		if time.Now().After(end) {
			return "", "", "gateway did not start listening"
		}
		select {
		case <-p.done:
			return "", "", "gateway exited: " + p.output()
		case <-time.After(10 * time.Millisecond):
		}
	}
	mk := func(id string) *rsession {
		c, _ := net.DialUDP("udp4", nil, &net.UDPAddr{IP: net.IPv4(127, 0, 0, 1), Port: port})
		return &rsession{id: id, conn: c}
	}
	sa, sb := mk("cA"), mk("cB")
	defer sa.conn.Close()
	defer sb.conn.Close()
	doStep := func(s *rsession, st rstep) string {
		n0, _, _ := br.state(s.id)
		s.conn.Write(st.dgram(s))
		var replies []string
		buf := make([]byte, 9000)
		end := time.Now().Add(deadline)
		outcome := ""
		for outcome == "" {
			s.conn.SetReadDeadline(time.Now().Add(50 * time.Millisecond))
			n, err := s.conn.Read(buf)
			if err == nil {
				r, derr := refsn.Decode(buf[:n])
				if derr != nil {
					replies = append(replies, "UNDECODABLE")
					continue
				}
				replies = append(replies, fmt.Sprintf("%s(rc=%d)", r.Name(), r.RC))
				if r.Type == refsn.REGACK {
					s.regTID = r.TopicID
				}
				if st.barrier(r) {
					outcome = "answered"
				}
				continue
			}
			if _, closed, _ := br.state(s.id); closed && !st.final {
				outcome = "broker-connection-closed-while-waiting"
			} else if time.Now().After(end) {
				outcome = "deadline"
			}
		}
		// (what the broker has read by now is not ordered with the client's replies: the broker-side packets are
		// compared as a whole at the end of the session; a closed broker connection is a definite event)
		_ = n0
		_, closed, _ := br.state(s.id)
		line := fmt.Sprintf("%s: %s replies=%v", st.name, outcome, replies)
		if !st.final {
			line += fmt.Sprintf(" brokerconn-closed=%t", closed)
		} else {
			s.ended = true
			// the session is over when the gateway has closed its broker connection: only then is the
			// handler gone and the listener's per-peer state released (a definite event, no timing judged)
			wend := time.Now().Add(deadline)
			for {
				if _, closed, _ := br.state(s.id); closed {
					break
				}
				if time.Now().After(wend) {
					outcome = "deadline"
					break
				}
				select {
				case <-br.ev:
				case <-time.After(10 * time.Millisecond):
				}
			}
		}
		s.log = append(s.log, line)
		return outcome
	}
	ia, ib := 0, 0
	for _, who := range order {
		var out string
		if who == 0 && a != nil && ia < len(a.steps) {
			out = doStep(sa, a.steps[ia])
			ia++
		} else if who == 1 && b != nil && ib < len(b.steps) {
			out = doStep(sb, b.steps[ib])
			ib++
		}
		if out == "deadline" {
			// nothing more to learn from this run
			return strings.Join(sa.log, "\n"), strings.Join(sb.log, "\n"), "a step met the harness deadline"
		}
	}
	// end of the run: every session that took part is ended by a plain DISCONNECT (if its script has not ended it)
	// and its broker connection is awaited; then the broker-side packet sequence is complete and comparable
	finish := func(s *rsession, took bool) {
		if !took {
			return
		}
		if !s.ended {
			s.conn.Write(refsn.Pkt{Type: refsn.DISCONNECT}.Encode())
		}
		end := time.Now().Add(deadline)
		for {
			_, closed, all := br.state(s.id)
			if closed {
				s.log = append(s.log, fmt.Sprintf("broker saw: %v", all))
				return
			}
			if time.Now().After(end) {
				s.log = append(s.log, "broker connection still open")
				inconclusive = "a broker connection did not close"
				return
			}
			select {
			case <-br.ev:
			case <-time.After(20 * time.Millisecond):
			}
		}
	}
	finish(sa, a != nil)
	finish(sb, b != nil)
	if strings.Contains(strings.Join(sa.log, "")+strings.Join(sb.log, ""), "broker-connection-closed-while-waiting") {
		// keep what the gateway printed: the reason why it ended a session is there
		p.kill()
		sa.log = append(sa.log, "gateway output: "+p.output())
		sb.log = append(sb.log, "gateway output: "+p.output())
	}
	return strings.Join(sa.log, "\n"), strings.Join(sb.log, "\n"), inconclusive
}

func interleavings(na, nb int) [][]int {
	var out [][]int
	var rec func(cur []int, a, b int)
	rec = func(cur []int, a, b int) {
		if a == na && b == nb {
			out = append(out, append([]int(nil), cur...))
			return
		}
		if a < na {
			rec(append(cur, 0), a+1, b)
		}
		if b < nb {
			rec(append(cur, 1), a, b+1)
		}
	}
	rec(nil, 0, 0)
	return out
}

func TestC15real(t *testing.T) {
	rep := explore.NewReport("C15", "model_checking")
	if _, err := buildTools(); err != nil {
		rep.HarnessErr = err.Error()
		rep.Finish()
		return
	}
	defer os.RemoveAll(binDir)
	scripts := rscripts()
	// solo logs
	solo := map[string][2]string{}
	for i := range scripts {
		la, _, inc := runReal(&scripts[i], nil, repeat(0, len(scripts[i].steps)))
		_, lb, inc2 := runReal(nil, &scripts[i], repeat(1, len(scripts[i].steps)))
		if inc != "" || inc2 != "" {
			rep.HarnessErr = "solo run of " + scripts[i].name + " inconclusive: " + inc + inc2
			rep.Finish()
			return
		}
		solo[scripts[i].name] = [2]string{la, lb}
	}
	type job struct {
		a, b  int
		order []int
	}
	var jobs []job
	pairs := [][2]int{{0, 1}, {4, 1}, {2, 3}, {0, 2}}
	if explore.Tier() == "thorough" {
		pairs = nil
		for i := range scripts {
			for j := range scripts {
				pairs = append(pairs, [2]int{i, j})
			}
		}
	}
	for _, pr := range pairs {
		for _, o := range interleavings(len(scripts[pr[0]].steps), len(scripts[pr[1]].steps)) {
			jobs = append(jobs, job{pr[0], pr[1], o})
		}
	}
	var mu sync.Mutex
	var wg sync.WaitGroup
	sem := make(chan struct{}, explore.Workers())
	incon, runs := 0, 0
	var candidates []job
	outcomes := map[string]bool{}
	var samples []string
	for _, j := range jobs {
		wg.Add(1)
		sem <- struct{}{}
		go func(j job) {
			defer wg.Done()
			defer func() { <-sem }()
			A, B := &scripts[j.a], &scripts[j.b]
			la, lb, inc := runReal(A, B, j.order)
			mu.Lock()
			defer mu.Unlock()
			runs++
			outcomes[la+"||"+lb] = true
			if len(samples) < 3 {
				samples = append(samples, fmt.Sprintf("A=%q B=%q order=%v", A.name, B.name, j.order))
			}
			check := func(who, got, want, own, other string) {
				if got == want {
					return
				}
				if inc != "" && !strings.Contains(got, "broker-connection-closed-while-waiting") {
					return // a deadline: inconclusive, not a verdict
				}
				first, stepName := "", "?"
				gl, wl := strings.Split(got, "\n"), strings.Split(want, "\n")
				for i := 0; i < len(gl) || i < len(wl); i++ {
					g, w := "<missing>", "<missing>"
					if i < len(gl) {
						g = gl[i]
					}
					if i < len(wl) {
						w = wl[i]
					}
					if g != w {
						first = fmt.Sprintf("step %d: with the other session %q, alone %q", i+1, g, w)
						stepName = strings.SplitN(g, ":", 2)[0]
						if g == "<missing>" {
							stepName = strings.SplitN(w, ":", 2)[0]
						}
						break
					}
				}
				sig := "real-listener:session-disturbed-by-another:" + stepName
				rep.Add(explore.Violation{Property: "C15", Sig: sig, Detail: fmt.Sprintf("real gateway on loopback UDP: session %s running %q behaves differently when session running %q is interleaved (order %v; 0 = A's next step, 1 = B's): %s", who, own, other, j.order, first)})
			}
			check("A", la, solo[A.name][0], A.name, B.name)
			check("B", lb, solo[B.name][1], B.name, A.name)
			if inc != "" {
				incon++
				if strings.Contains(la+lb, ": deadline ") && len(candidates) < 3 {
					candidates = append(candidates, j)
				}
			}
		}(j)
	}
	wg.Wait()
	// A step that got no answer is not judged by the clock alone.  The interleaving is repeated twice on the now
	// idle machine, together with control runs of both scripts alone: only if the same step stays unanswered both
	// times while the controls are answered is the silence attributed to the other session.
	for _, j := range candidates {
		A, B := &scripts[j.a], &scripts[j.b]
		silent := func(l string) string {
			for _, line := range strings.Split(l, "\n") {
				if strings.Contains(line, ": deadline ") {
					return strings.SplitN(line, ":", 2)[0]
				}
			}
			return ""
		}
		same, step, who := true, "", ""
		for k := 0; k < 2 && same; k++ {
			la, lb, _ := runReal(A, B, j.order)
			sa, sb := silent(la), silent(lb)
			cur, curWho := sa, "A"
			if cur == "" {
				cur, curWho = sb, "B"
			}
			if cur == "" || (step != "" && (cur != step || curWho != who)) {
				same = false
			}
			step, who = cur, curWho
		}
		ca, _, inca := runReal(A, nil, repeat(0, len(A.steps)))
		_, cb, incb := runReal(nil, B, repeat(1, len(B.steps)))
		if same && inca == "" && incb == "" && ca == solo[A.name][0] && cb == solo[B.name][1] {
			own, other := A.name, B.name
			if who == "B" {
				own, other = B.name, A.name
			}
			rep.Add(explore.Violation{Property: "C15", Sig: "real-listener:session-unanswered-with-another-session:" + step,
				Detail: fmt.Sprintf("real gateway on loopback UDP: session %s running %q gets no answer to %s (10 s, three times in a row, also on the idle machine) when the session running %q is interleaved in the order %v (0 = A's next step, 1 = B's); both scripts run alone are answered at once", who, own, step, other, j.order)})
			incon = 0 // the silence has been explained
			break
		}
	}
	rep.Coverage["states"] = len(outcomes)
	rep.Coverage["transitions"] = runs
	rep.Coverage["traces_validated_against_impl"] = runs
	rep.Coverage["real_listener_runs"] = runs
	rep.Coverage["inconclusive"] = incon
	rep.Coverage["exhaustive"] = incon == 0
	rep.Coverage["samples"] = samples
	rep.Coverage["rule"] = "real-listener part: the bisquitt binary built from the current tree, two UDP sockets and a harness TCP broker on loopback; for pairs of session scripts (connect/register/publish/disconnect, connect/subscribe/ping, connect/ping/undecodable datagram, connect/sleep/wake-ups, connect/disconnect) every interleaving of their steps on a fresh gateway process; each step waits for its own reply (or for the session's broker connection to be closed); each session's log (replies and broker connection state per step, and the session's broker-side packet sequence without PINGREQs once its broker connection has closed) must equal its log when it runs alone"
	rep.Assumptions = []string{"real-listener part: only event order is observed; a step that meets the 10 s harness deadline is judged only after the silence was reproduced twice on the idle machine while control runs of both scripts alone were answered; otherwise the run is inconclusive"}
	rep.Finish()
}

func repeat(v, n int) []int {
	o := make([]int, n)
	for i := range o {
		o[i] = v
	}
	return o
}
