// Package race is the separate, free-running race pass (DESIGN 2.6): the bodies
// of the schedule-exploration scenarios run with real goroutines, real timers
// and real sockets under the Go race detector.  The cooperative scheduler's
// hand-offs are happens-before edges, so data races are invisible to it; this
// pass finds the unsynchronised accesses themselves.  It is built without the
// shims (plain overlay: only the package-private exports are added).
package race

import (
	"bufio"
	"context"
	"fmt"
	"net"
	"os"
	"os/exec"
	"path/filepath"
	"regexp"
	"sort"
	"strings"
	"sync"
	"syscall"
	"testing"
	"time"

	"github.com/energomonitor/bisquitt/client"
	"github.com/energomonitor/bisquitt/gateway"
	pkts1 "github.com/energomonitor/bisquitt/packets1"
	"github.com/energomonitor/bisquitt/topics"
	"github.com/energomonitor/bisquitt/transactions"

	"verif/mc/explore"
	"verif/mc/ref/refmqtt"
	"verif/mc/ref/refsn"
)

func socketpair(typ int) (net.Conn, net.Conn, error) {
	fds, err := syscall.Socketpair(syscall.AF_UNIX, typ, 0)
	if err != nil {
		return nil, nil, err
	}
	mk := func(fd int) (net.Conn, error) {
		f := os.NewFile(uintptr(fd), "sp")
		defer f.Close()
		return net.FileConn(f)
	}
	a, err := mk(fds[0])
	if err != nil {
		return nil, nil, err
	}
	b, err := mk(fds[1])
	return a, b, err
}

// ---- body 1: transactions under concurrent Success / Fail / Proceed / timers / cancellation ----

func bodyTransactions(reps int) {
	for i := 0; i < reps; i++ {
		ctx, cancel := context.WithCancel(context.Background())
		var cb, fin int
		var mu sync.Mutex
		t := transactions.NewRetryTransaction(ctx, time.Duration(i%3)*50*time.Microsecond, uint(i%3), func(interface{}) error {
			mu.Lock()
			cb++
			mu.Unlock()
			return nil
		}, func() {
			mu.Lock()
			fin++
			mu.Unlock()
		})
		t.Proceed("s1", "d1")
		var wg sync.WaitGroup
		for k, f := range []func(){func() { t.Success() }, func() { t.Fail(fmt.Errorf("e")) }, func() { t.Proceed("s2", "d2") }, cancel, func() { _ = t.Err() }} {
			if (i>>uint(k))&1 == 1 || k == 0 {
				wg.Add(1)
				go func(f func()) { defer wg.Done(); f() }(f)
			}
		}
		wg.Wait()
		<-t.Done()
		cancel()
		tt := transactions.NewTimedTransaction(context.Background(), time.Duration(i%2)*30*time.Microsecond, func() {})
		go tt.Success()
		<-tt.Done()
	}
}

// ---- body 2: a gateway session whose sleeping client wakes up while the broker publishes ----

func bodyGatewaySleep(reps int) error {
	for i := 0; i < reps; i++ {
		snGW, snCl, err := socketpair(syscall.SOCK_SEQPACKET)
		if err != nil {
			return err
		}
		mqGW, mqBr, err := socketpair(syscall.SOCK_STREAM)
		if err != nil {
			return err
		}
		sh := gateway.VNewShared(gateway.VConfig{RetryDelay: 20 * time.Millisecond, RetryCount: 2})
		h := gateway.VNewHandler(sh, topics.PredefinedTopics{"*": {1: "p/1"}}, func() net.Conn { return mqGW })
		ctx, cancel := context.WithCancel(context.Background())
		done := make(chan struct{})
		go func() { h.VRun(ctx, snGW); close(done) }()
		// broker: answers and, once subscribed, publishes on its own
		var bmu sync.Mutex
		subscribed := make(chan struct{})
		relPending := false
		go func() {
			buf := make([]byte, 0, 4096)
			tmp := make([]byte, 4096)
			for {
				n, err := mqBr.Read(tmp)
				if err != nil {
					return
				}
				buf = append(buf, tmp[:n]...)
				pk, rest, perr := refmqtt.ParseAll(buf)
				if perr != nil {
					return
				}
				buf = append(buf[:0], rest...)
				for _, p := range pk {
					bmu.Lock()
					switch p.Type {
					case refmqtt.CONNECT:
						mqBr.Write(refmqtt.EncConnack(0))
					case refmqtt.SUBSCRIBE:
						mqBr.Write(refmqtt.EncSuback(p.ID, p.QoSs...))
						select {
						case <-subscribed:
						default:
							close(subscribed)
						}
					case refmqtt.PINGREQ:
						mqBr.Write(refmqtt.EncPingresp())
					case refmqtt.PUBREC:
						if p.ID == 99 { // phase A: withheld, so that the gateway's retry timer resends PUBREC meanwhile
							if !relPending {
								relPending = true
								go func() {
									time.Sleep(70 * time.Millisecond)
									bmu.Lock()
									mqBr.Write(refmqtt.EncPubrel(99))
									bmu.Unlock()
								}()
							}
						} else {
							mqBr.Write(refmqtt.EncPubrel(p.ID))
						}
					}
					bmu.Unlock()
				}
			}
		}()
		send := func(p refsn.Pkt) { snCl.Write(p.Encode()) }
		recvUntil := func(ty byte) bool {
			b := make([]byte, 9000)
			for {
				snCl.SetReadDeadline(time.Now().Add(2 * time.Second))
				n, err := snCl.Read(b)
				if err != nil {
					return false
				}
				p, derr := refsn.Decode(b[:n])
				if derr != nil {
					continue
				}
				switch p.Type { // answer what needs an answer
				case refsn.REGISTER:
					send(refsn.Pkt{Type: refsn.REGACK, TopicID: p.TopicID, MsgID: p.MsgID})
				case refsn.PUBLISH:
					if p.QoS == 1 {
						send(refsn.Pkt{Type: refsn.PUBACK, TopicID: p.TopicID, MsgID: p.MsgID})
					} else if p.QoS == 2 {
						send(refsn.Pkt{Type: refsn.PUBREC, MsgID: p.MsgID})
					}
				case refsn.PUBREL:
					send(refsn.Pkt{Type: refsn.PUBCOMP, MsgID: p.MsgID})
				}
				if p.Type == ty {
					return true
				}
			}
		}
		send(refsn.Pkt{Type: refsn.CONNECT, HasFlags: true, Clean: true, ProtoID: 1, Duration: 60, Data: []byte("c1")})
		recvUntil(refsn.CONNACK)
		send(refsn.Pkt{Type: refsn.SUBSCRIBE, HasFlags: true, QoS: 2, MsgID: 2, Str: "w/#"})
		recvUntil(refsn.SUBACK)
		<-subscribed
		// phase A: the retry timer of a broker QoS 2 exchange resends PUBREC to the broker while the MQTT-SN loop
		// forwards the client's PINGREQs: two goroutines sending to the broker at once
		bmu.Lock()
		mqBr.Write(refmqtt.EncPublish("w/a", 2, false, false, 99, []byte("x")))
		bmu.Unlock()
		recvUntil(refsn.PUBLISH) // (REGISTER answered on the way; PUBREC sent by recvUntil)
		for k := 0; k < 25; k++ {
			send(refsn.Pkt{Type: refsn.PINGREQ})
			time.Sleep(2 * time.Millisecond)
		}
		recvUntil(refsn.PUBREL)
		send(refsn.Pkt{Type: refsn.DISCONNECT, HasDur: true, Duration: 5})
		recvUntil(refsn.DISCONNECT)
		var wg sync.WaitGroup
		wg.Add(1)
		go func() { // the broker's publishes race with the wake-ups
			defer wg.Done()
			for k := 0; k < 6; k++ {
				bmu.Lock()
				mqBr.Write(refmqtt.EncPublish(fmt.Sprintf("w/%d", k%2), byte(k%3), false, false, uint16(10+k), []byte("x")))
				bmu.Unlock()
				time.Sleep(time.Duration(k) * 100 * time.Microsecond)
			}
		}()
		for k := 0; k < 3; k++ {
			send(refsn.Pkt{Type: refsn.PINGREQ, Data: []byte("c1")})
			recvUntil(refsn.PINGRESP)
		}
		wg.Wait()
		if i%2 == 0 {
			send(refsn.Pkt{Type: refsn.CONNECT, HasFlags: true, ProtoID: 1, Duration: 60, Data: []byte("c1")})
			recvUntil(refsn.CONNACK)
		}
		send(refsn.Pkt{Type: refsn.DISCONNECT})
		recvUntil(refsn.DISCONNECT)
		select {
		case <-done:
		case <-time.After(5 * time.Second):
			cancel()
			<-done
		}
		cancel()
		snCl.Close()
		mqBr.Close()
	}
	return nil
}

// ---- body 3: a client with a keep-alive loop, Sleep and Publish calls and inbound messages at once ----

func bodyClient(reps int) error {
	for i := 0; i < reps; i++ {
		cl, gwc, err := socketpair(syscall.SOCK_SEQPACKET)
		if err != nil {
			return err
		}
		c := client.VNewClient(&client.ClientConfig{ClientID: "c1", CleanSession: true, KeepAlive: 3 * time.Millisecond, ConnectTimeout: time.Second,
			RetryDelay: 20 * time.Millisecond, RetryCount: 3, PredefinedTopics: topics.PredefinedTopics{}}, cl)
		var wmu sync.Mutex
		send := func(p refsn.Pkt) { wmu.Lock(); gwc.Write(p.Encode()); wmu.Unlock() }
		go func() { // the gateway
			b := make([]byte, 9000)
			for {
				n, err := gwc.Read(b)
				if err != nil {
					return
				}
				p, derr := refsn.Decode(b[:n])
				if derr != nil {
					continue
				}
				switch p.Type {
				case refsn.CONNECT:
					send(refsn.Pkt{Type: refsn.CONNACK})
				case refsn.SUBSCRIBE:
					send(refsn.Pkt{Type: refsn.SUBACK, MsgID: p.MsgID, QoS: p.QoS})
				case refsn.PUBLISH:
					// the first copy of every second message gets no answer: the client retransmits (DUP)
					if p.QoS == 1 && (p.DUP || p.MsgID%2 == 0) {
						send(refsn.Pkt{Type: refsn.PUBACK, TopicID: p.TopicID, MsgID: p.MsgID})
					}
				case refsn.PINGREQ:
					if len(p.Data) > 0 { // wake-up: a buffered message first
						send(refsn.Pkt{Type: refsn.PUBLISH, TIT: 2, TopicID: uint16('x')<<8 | 'y', QoS: 0, Data: []byte("b")})
					}
					send(refsn.Pkt{Type: refsn.PINGRESP})
				case refsn.DISCONNECT:
					send(refsn.Pkt{Type: refsn.DISCONNECT})
				}
			}
		}()
		if err := c.Dial("ignored"); err != nil {
			return err
		}
		if err := c.Connect(); err != nil {
			return fmt.Errorf("Connect: %v", err)
		}
		c.Subscribe("xy", 1, func(*client.Client, string, *pkts1.Publish) {})
		var wg sync.WaitGroup
		wg.Add(2)
		go func() {
			defer wg.Done()
			for k := 0; k < 5; k++ {
				c.Publish("xy", []byte("m"), 1, false)
			}
		}()
		go func() {
			defer wg.Done()
			for k := 0; k < 4; k++ {
				send(refsn.Pkt{Type: refsn.PUBLISH, TIT: 2, TopicID: uint16('x')<<8 | 'y', QoS: 2, MsgID: uint16(50 + k), Data: []byte("in")})
				send(refsn.Pkt{Type: refsn.PUBREL, MsgID: uint16(50 + k)})
			}
		}()
		wg.Wait()
		c.Sleep(time.Second) // (durations are whole seconds on the wire)
		c.Connect()
		c.Ping()
		c.Disconnect()
		c.Close()
		gwc.Close()
	}
	return nil
}

func TestRaceBodies(t *testing.T) {
	if os.Getenv("VERIF_RACE_BODY") == "" {
		t.Skip("run by TestRacePass")
	}
	reps := 8
	fmt.Sscan(os.Getenv("VERIF_RACE_REPS"), &reps)
	bodyTransactions(reps * 8)
	if err := bodyGatewaySleep(reps); err != nil {
		fmt.Println("BODY-ERROR gateway:", err)
	}
	if err := bodyClient(reps / 2); err != nil {
		fmt.Println("BODY-ERROR client:", err)
	}
}

var frameRe = regexp.MustCompile(`^\s+(/repo/[^ :]+):(\d+)`)
var fnRe = regexp.MustCompile(`^\s+github.com/energomonitor/bisquitt/([^\s(]+(?:\([^)]*\))?[^\s(]*)\(`)

// TestRacePass runs the bodies in a child process under the race detector and turns its reports into verdicts.
func TestRacePass(t *testing.T) {
	rep := explore.NewReport(os.Getenv("VERIF_PROPERTY"), "model_checking")
	if rep.Property == "" {
		rep.Property = "C18"
	}
	dir, _ := os.MkdirTemp(os.Getenv("VERIF_SCRATCH"), "race")
	defer os.RemoveAll(dir)
	reps := "10"
	if explore.Tier() == "thorough" {
		reps = "40"
	}
	cmd := exec.Command(os.Args[0], "-test.run", "^TestRaceBodies$", "-test.timeout", "20m")
	cmd.Env = append(os.Environ(), "VERIF_RACE_BODY=1", "VERIF_RACE_REPS="+reps, "GORACE=halt_on_error=0 exitcode=0 log_path="+filepath.Join(dir, "race"))
	out, err := cmd.CombinedOutput()
	if err != nil && strings.Contains(string(out), "race detected during execution of test") && !strings.Contains(string(out), "panic:") {
		err = nil // the testing package fails a test in which the detector reported races: that is the finding, not a harness problem
	}
	if err != nil || strings.Contains(string(out), "BODY-ERROR") || strings.Contains(string(out), "panic:") {
		tail := string(out)
		if len(tail) > 1500 {
			tail = tail[len(tail)-1500:]
		}
		rep.HarnessErr = fmt.Sprintf("race bodies did not run to their end: %v\n%s", err, tail)
		rep.Finish()
		return
	}
	// parse the reports: the innermost /repo frame of each of the two accesses
	type race struct{ a, b string }
	found := map[race]string{}
	files, _ := filepath.Glob(filepath.Join(dir, "race*"))
	nreports := 0
	for _, f := range files {
		fh, err := os.Open(f)
		if err != nil {
			continue
		}
		sc := bufio.NewScanner(fh)
		sc.Buffer(make([]byte, 1<<20), 1<<20)
		var cur []string
		var text []string
		flush := func() {
			if len(cur) >= 2 {
				r := race{cur[0], cur[1]}
				if r.a > r.b {
					r.a, r.b = r.b, r.a
				}
				if _, ok := found[r]; !ok {
					found[r] = strings.Join(text, "\n")
				}
			}
			cur, text = nil, nil
		}
		inAccess := false
		for sc.Scan() {
			l := sc.Text()
			switch {
			case strings.HasPrefix(l, "WARNING: DATA RACE"):
				flush()
				nreports++
				text = append(text, l)
				continue
			case strings.HasPrefix(l, "=================="):
				continue
			}
			if len(text) > 0 && len(text) < 40 {
				text = append(text, l)
			}
			if strings.HasPrefix(l, "Read at ") || strings.HasPrefix(l, "Write at ") || strings.HasPrefix(l, "Previous read at ") || strings.HasPrefix(l, "Previous write at ") {
				inAccess = true
				continue
			}
			if strings.HasPrefix(l, "Goroutine ") {
				inAccess = false
			}
			if inAccess {
				if m := frameRe.FindStringSubmatch(l); m != nil {
					cur = append(cur, strings.TrimPrefix(m[1], "/repo/")+":"+m[2])
					inAccess = false
				}
			}
		}
		flush()
		fh.Close()
	}
	var keys []race
	for r := range found {
		keys = append(keys, r)
	}
	sort.Slice(keys, func(i, j int) bool { return keys[i].a+keys[i].b < keys[j].a+keys[j].b })
	for _, r := range keys {
		file := func(s string) string { return s[:strings.LastIndex(s, ":")] }
		rep.Add(explore.Violation{Property: rep.Property, Sig: "data-race:" + file(r.a) + "<->" + file(r.b),
			Detail: fmt.Sprintf("race pass (real goroutines, Go race detector): unsynchronised accesses at %s and %s\n%s", r.a, r.b, found[r])})
	}
	rep.Coverage["states"] = 1 + len(found)
	rep.Coverage["transitions"] = 1
	rep.Coverage["traces_validated_against_impl"] = 0
	rep.Coverage["race_pass"] = map[string]any{"repetitions": reps, "reports": nreports, "distinct_races": len(found),
		"bodies": []string{"transactions: Success/Fail/Proceed/cancel/timers concurrently (zero and minimal delays)", "gateway session: sleeping client waking up while the broker publishes QoS 0-2 on new topics", "client: keep-alive loop (3 ms) with Publish calls, inbound QoS 2 messages, Sleep, Connect, Ping, Disconnect"}}
	rep.Coverage["samples"] = []string{"race pass: see race_pass"}
	rep.Coverage["rule"] = "race pass (separate, free-running, sampling - not the deciding step of the schedule exploration): the scenario bodies run with real goroutines, timers and sockets under the Go race detector; every reported pair of unsynchronised accesses in the repository's code is a violation of the property's no-data-race clause"
	rep.Assumptions = []string{"race pass: the race detector has no false positives; it sees only the interleavings that happen to occur"}
	rep.Finish()
}
