package codec

import (
	"bytes"
	"fmt"
	"strings"
	"testing"

	pkts "github.com/energomonitor/bisquitt/packets"
	p1 "github.com/energomonitor/bisquitt/packets1"

	"verif/mc/explore"
	"verif/mc/ref/refsn"
	"verif/mc/ref/snmap"
)

// ---- C21: encoding then decoding gives back the same packet -----------------------

var u16Boundary = []uint16{0, 1, 0xFF, 0x100, 0xFFFE, 0xFFFF}

func allU16(f func(v uint16)) {
	for v := 0; v <= 0xFFFF; v++ {
		f(uint16(v))
	}
}

// fill: n octets; from two octets on the value starts with a two-octet UTF-8 character ("é"), so that every name,
// id and payload of the domain is non-ASCII and octet counts differ from character counts
func fill(n int, c byte) []byte {
	b := bytes.Repeat([]byte{c}, n)
	if n >= 2 {
		b[0], b[1] = 0xC3, 0xA9
	}
	return b
}

// variable part lengths across every boundary (the header form switches at
// total size 255/256; MaxPayloadLength = 7168)
func varLens(min int, thorough bool) []int {
	var l []int
	add := func(a, b int) {
		for i := a; i <= b; i++ {
			if i >= min {
				l = append(l, i)
			}
		}
	}
	add(0, 4)
	add(240, 262)
	l = append(l, 7167, 7168)
	if thorough {
		add(5, 239)
		add(263, 300)
		l = append(l, 1000, 4096)
	}
	return l
}

type c21gen struct {
	name string
	gen  func(thorough bool, emit func(p pkts.Packet))
}

func setMsgID(p interface{ SetMessageID(uint16) }, v uint16) { p.SetMessageID(v) }

func c21gens() []c21gen {
	bools := []bool{false, true}
	return []c21gen{
		{"ADVERTISE", func(th bool, emit func(pkts.Packet)) {
			for g := 0; g < 256; g++ {
				for _, d := range u16Boundary {
					emit(p1.NewAdvertise(uint8(g), d))
				}
			}
			allU16(func(v uint16) { emit(p1.NewAdvertise(7, v)) })
		}},
		{"SEARCHGW", func(th bool, emit func(pkts.Packet)) {
			for g := 0; g < 256; g++ {
				emit(p1.NewSearchGw(uint8(g)))
			}
		}},
		{"GWINFO", func(th bool, emit func(pkts.Packet)) {
			for _, n := range varLens(0, th) {
				for _, g := range []uint8{0, 1, 255} {
					emit(p1.NewGwInfo(g, fill(n, 'a')))
				}
			}
		}},
		{"AUTH", func(th bool, emit func(pkts.Packet)) {
			for _, ul := range []int{0, 1, 5, 250} {
				for _, pl := range varLens(0, th) {
					if pl > 1000 {
						continue
					}
					emit(p1.NewAuthPlain(string(fill(ul, 'u')), fill(pl, 'p')))
				}
			}
		}},
		{"CONNECT", func(th bool, emit func(pkts.Packet)) {
			for _, w := range bools {
				for _, c := range bools {
					for n := 1; n <= 23; n++ {
						for _, d := range u16Boundary {
							emit(p1.NewConnect(d, fill(n, 'c'), w, c))
						}
					}
					allU16(func(v uint16) { emit(p1.NewConnect(v, []byte("cl"), w, c)) })
					for _, n := range varLens(1, th) {
						emit(p1.NewConnect(30, fill(n, 'c'), w, c))
					}
				}
			}
		}},
		{"CONNACK/WILL*RESP", func(th bool, emit func(pkts.Packet)) {
			for rc := 0; rc < 256; rc++ {
				emit(p1.NewConnack(p1.ReturnCode(rc)))
				emit(p1.NewWillTopicResp(p1.ReturnCode(rc)))
				emit(p1.NewWillMsgResp(p1.ReturnCode(rc)))
			}
		}},
		{"empty-body", func(th bool, emit func(pkts.Packet)) {
			emit(p1.NewWillTopicReq())
			emit(p1.NewWillMsgReq())
			emit(p1.NewPingresp())
		}},
		{"WILLTOPIC(UPD)", func(th bool, emit func(pkts.Packet)) {
			emit(p1.NewWillTopic("", 0, false))
			emit(p1.NewWillTopicUpd("", 0, false))
			for q := uint8(0); q < 4; q++ {
				for _, r := range bools {
					for _, n := range varLens(1, th) {
						emit(p1.NewWillTopic(string(fill(n, 't')), q, r))
						emit(p1.NewWillTopicUpd(string(fill(n, 't')), q, r))
					}
				}
			}
		}},
		{"WILLMSG(UPD)/PINGREQ", func(th bool, emit func(pkts.Packet)) {
			for _, n := range varLens(0, th) {
				emit(p1.NewWillMsg(fill(n, 'm')))
				emit(p1.NewWillMsgUpd(fill(n, 'm')))
				emit(p1.NewPingreq(fill(n, 'c')))
			}
		}},
		{"REGISTER", func(th bool, emit func(pkts.Packet)) {
			mk := func(tid, mid uint16, n int) {
				p := p1.NewRegister(tid, string(fill(n, 't')))
				p.SetMessageID(mid)
				emit(p)
			}
			allU16(func(v uint16) { mk(v, 1, 3); mk(1, v, 3) })
			for _, n := range varLens(1, th) {
				for _, a := range u16Boundary {
					mk(a, 0xFFFF-a, n)
				}
			}
		}},
		{"REGACK/PUBACK", func(th bool, emit func(pkts.Packet)) {
			mk := func(tid, mid uint16, rc int) {
				a := p1.NewRegack(tid, p1.ReturnCode(rc))
				a.SetMessageID(mid)
				emit(a)
				b := p1.NewPuback(tid, p1.ReturnCode(rc))
				b.SetMessageID(mid)
				emit(b)
			}
			allU16(func(v uint16) { mk(v, 1, 0); mk(1, v, 3) })
			for rc := 0; rc < 256; rc++ {
				for _, a := range u16Boundary {
					mk(a, 0xFFFF-a, rc)
				}
			}
		}},
		{"PUBLISH", func(th bool, emit func(pkts.Packet)) {
			mk := func(tid, mid uint16, n int, dup bool, q uint8, r bool, tit uint8) {
				p := p1.NewPublish(tid, fill(n, 'd'), dup, q, r, tit)
				p.SetMessageID(mid)
				emit(p)
			}
			for _, dup := range bools {
				for q := uint8(0); q < 4; q++ {
					for _, r := range bools {
						for tit := uint8(0); tit < 3; tit++ {
							for _, n := range varLens(0, th) {
								for _, a := range u16Boundary {
									mk(a, 0xFFFF-a, n, dup, q, r, tit)
								}
							}
						}
					}
				}
			}
			allU16(func(v uint16) { mk(v, 1, 2, false, 1, false, 0); mk(1, v, 2, true, 2, true, 2) })
		}},
		{"PUBCOMP/PUBREC/PUBREL/UNSUBACK", func(th bool, emit func(pkts.Packet)) {
			allU16(func(v uint16) {
				a := p1.NewPubcomp()
				a.SetMessageID(v)
				emit(a)
				b := p1.NewPubrec()
				b.SetMessageID(v)
				emit(b)
				c := p1.NewPubrel()
				c.SetMessageID(v)
				emit(c)
				d := p1.NewUnsuback()
				d.SetMessageID(v)
				emit(d)
			})
		}},
		{"SUBSCRIBE/UNSUBSCRIBE", func(th bool, emit func(pkts.Packet)) {
			for _, dup := range bools {
				for q := uint8(0); q < 4; q++ {
					for _, n := range varLens(1, th) {
						for _, a := range u16Boundary {
							s := p1.NewSubscribe(string(fill(n, 't')), 0, dup, q, p1.TIT_STRING)
							s.SetMessageID(a)
							emit(s)
						}
					}
					for _, tit := range []uint8{p1.TIT_PREDEFINED, p1.TIT_SHORT} {
						allU16(func(v uint16) {
							s := p1.NewSubscribe("", v, dup, q, tit)
							s.SetMessageID(0xFFFF - v)
							emit(s)
						})
					}
				}
			}
			for _, n := range varLens(1, th) {
				for _, a := range u16Boundary {
					u := p1.NewUnsubscribe(string(fill(n, 't')), 0, p1.TIT_STRING)
					u.SetMessageID(a)
					emit(u)
				}
			}
			for _, tit := range []uint8{p1.TIT_PREDEFINED, p1.TIT_SHORT} {
				allU16(func(v uint16) {
					u := p1.NewUnsubscribe("", v, tit)
					u.SetMessageID(0xFFFF - v)
					emit(u)
				})
			}
		}},
		{"SUBACK", func(th bool, emit func(pkts.Packet)) {
			for q := uint8(0); q < 4; q++ {
				for rc := 0; rc < 256; rc++ {
					for _, a := range u16Boundary {
						s := p1.NewSuback(a, p1.ReturnCode(rc), q)
						s.SetMessageID(0xFFFF - a)
						emit(s)
					}
				}
				allU16(func(v uint16) {
					s := p1.NewSuback(v, 0, q)
					s.SetMessageID(v ^ 0x5555)
					emit(s)
				})
			}
		}},
		{"DISCONNECT", func(th bool, emit func(pkts.Packet)) {
			allU16(func(v uint16) { emit(p1.NewDisconnect(v)) })
		}},
	}
}

func structStr(p pkts.Packet) string {
	s := fmt.Sprintf("%#v", p)
	s = strings.ReplaceAll(s, "[]uint8(nil)", "[]uint8{}")
	s = strings.ReplaceAll(s, "[]byte(nil)", "[]uint8{}")
	return s
}

func firstDiff(a, b string) (string, string) {
	i := 0
	for i < len(a) && i < len(b) && a[i] == b[i] {
		i++
	}
	lo := i - 60
	if lo < 0 {
		lo = 0
	}
	cut := func(s string) string {
		hi := i + 60
		if hi > len(s) {
			hi = len(s)
		}
		return "..." + s[lo:hi] + "..."
	}
	return cut(a), cut(b)
}

func accAdd(a *acc, v explore.Violation) { a.add(v) }

func TestC21(t *testing.T) {
	rep := explore.NewReport("C21", "exploration")
	th := explore.Tier() == "thorough"
	gens := c21gens()
	var blocks []block
	results := make([]*acc, len(gens))
	for i, g := range gens {
		i, g := i, g
		results[i] = &acc{viol: map[string]explore.Violation{}, kinds: map[string]int{}}
		blocks = append(blocks, block{name: g.name, gen: func(func([]byte)) {
			a := results[i]
			g.gen(th, func(p pkts.Packet) {
				a.n++
				want, err := snmap.FromReal(p)
				if err != nil {
					a.add(explore.Violation{Sig: "unmappable", Detail: err.Error()})
					return
				}
				name := want.Name()
				a.kinds[name]++
				enc, err := p.Pack()
				if err != nil {
					a.add(explore.Violation{Property: "C21", Sig: "pack-error:" + name, Detail: fmt.Sprintf("%v: %v", p, err)})
					return
				}
				if len(enc) > p1.MaxPacketLen {
					return // beyond the transport maximum: not a legal packet
				}
				// length field and header form
				short := enc[0] != 1
				var announced int
				if short {
					announced = int(enc[0])
				} else {
					announced = int(enc[1])<<8 | int(enc[2])
				}
				if announced != len(enc) {
					a.add(explore.Violation{Property: "C21", Sig: "length-field:" + name, Detail: fmt.Sprintf("%v: length field %d, datagram size %d", want, announced, len(enc))})
				}
				if short != (len(enc) <= 255) {
					a.add(explore.Violation{Property: "C21", Sig: "header-form:" + name, Detail: fmt.Sprintf("%v: size %d encoded with one-byte form=%t", want, len(enc), short)})
				}
				// independent encoder agrees byte for byte
				if ref := want.Encode(); !bytes.Equal(ref, enc) {
					a.add(explore.Violation{Property: "C21", Sig: "encoding-differs-from-reference:" + name, Detail: fmt.Sprintf("%v: encoded %s, reference %s", want, hexs(enc), hexs(ref))})
				}
				q, derr, site, msg := decode(enc)
				if site != "" {
					a.add(explore.Violation{Property: "C21", Sig: "decode-panic:" + name, Detail: fmt.Sprintf("%v: %s %s", want, site, msg)})
					return
				}
				if derr != nil {
					a.add(explore.Violation{Property: "C21", Sig: "decode-error:" + name, Detail: fmt.Sprintf("%v (%s): %v", want, hexs(enc), derr)})
					return
				}
				got, _ := snmap.FromReal(q)
				// whole-struct equality (what a user comparing packets sees), nil and empty slices identified
				if a, b := structStr(p), structStr(q); a != b {
					a2, b2 := a, b
					if len(a2) > 300 {
						a2, b2 = firstDiff(a, b)
					}
					a_ := explore.Violation{Property: "C21", Sig: "decoded-struct-differs:" + name, Detail: fmt.Sprintf("built %s, decoded %s", a2, b2)}
					a_.History = []string{hexs(enc)}
					a_.Scenario = name
					accAdd(results[i], a_)
				}
				if !snmap.Equal(got, want) {
					a.add(explore.Violation{Property: "C21", Sig: "roundtrip-differs:" + name, Detail: fmt.Sprintf("built %v, decoded %v (datagram %s)", snmap.Norm(want), snmap.Norm(got), hexs(enc))})
				}
			})
		}})
	}
	// short topic bijection
	st := &acc{viol: map[string]explore.Violation{}, kinds: map[string]int{}}
	blocks = append(blocks, block{name: "short-topic", gen: func(func([]byte)) {
		seen := make(map[string]bool, 65536)
		for v := 0; v <= 0xFFFF; v++ {
			st.n++
			name := pkts.DecodeShortTopic(uint16(v))
			if len(name) != 2 || name[0] != byte(v>>8) || name[1] != byte(v) {
				st.add(explore.Violation{Property: "C21", Sig: "short-topic:decode", Detail: fmt.Sprintf("DecodeShortTopic(%#x) = %q", v, name)})
			}
			if seen[name] {
				st.add(explore.Violation{Property: "C21", Sig: "short-topic:not-injective", Detail: fmt.Sprintf("%q decoded twice", name)})
			}
			seen[name] = true
			if !pkts.IsShortTopic(name) {
				st.add(explore.Violation{Property: "C21", Sig: "short-topic:is-short", Detail: fmt.Sprintf("IsShortTopic(%q) false", name)})
			}
			if back := pkts.EncodeShortTopic(name); back != uint16(v) {
				st.add(explore.Violation{Property: "C21", Sig: "short-topic:encode", Detail: fmt.Sprintf("EncodeShortTopic(DecodeShortTopic(%#x)) = %#x", v, back)})
			}
		}
		st.kinds["short-topic"] = 65536
	}})
	sweep(blocks, func(int, []byte) {})
	n, _, _, viol, kinds := merge(append(results, st))
	rep.Add(viol...)
	_ = refsn.Names
	rep.Coverage = map[string]any{
		"evaluations":         n,
		"distinct_nontrivial": len(kinds),
		"by_type":             kinds,
		"exhaustive":          true,
		"rule":                "per constructor: all flag combinations x each 16-bit field over the full 0..65535 range (one at a time, others at boundary values {0,1,0xFF,0x100,0xFFFE,0xFFFF}) x variable-part lengths {0..4, 240..262, 7167, 7168} (thorough: 0..300, 1000, 4096); Pack -> ReadPacket -> field-by-field comparison, length field = size, one-byte form iff size<=255, byte-identical to the independent reference encoder; all 65536 short topic ids both ways; distinct_nontrivial = message types covered",
		"samples":             []string{"PUBLISH dup=1 qos=3 retain=1 tit=2 tid=0xFFFE mid=1 len(data)=248", "CONNECT will=1 clean=0 dur=0xFFFF clientid=23 bytes", "DISCONNECT(0)", "short topic 0x2b2f <-> \"+/\""},
	}
	rep.Assumptions = []string{"legal ranges as the constructors document them (WILLTOPIC with empty topic carries no flags; REGISTER/SUBSCRIBE names non-empty; datagram <= MaxPacketLen)"}
	rep.Finish()
}
