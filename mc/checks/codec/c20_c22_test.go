package codec

import (
	"fmt"
	"io"
	"runtime/debug"
	"sort"
	"strings"
	"testing"

	pkts "github.com/energomonitor/bisquitt/packets"
	p1 "github.com/energomonitor/bisquitt/packets1"

	"verif/mc/explore"
	"verif/mc/ref/refsn"
	"verif/mc/ref/snmap"
)

// decode calls the real decoder; a panic is returned as panicSite != "".
func decode(in []byte) (p pkts.Packet, err error, panicSite, panicMsg string) {
	defer func() {
		if r := recover(); r != nil {
			panicMsg = fmt.Sprint(r)
			panicSite = topRepoFrame(string(debug.Stack()))
		}
	}()
	p, err = p1.ReadPacket(&datagram{b: in})
	return
}

// datagram delivers its content the way a datagram socket does: one Read returns the whole datagram and no
// error, also when the datagram is empty (bytes.Reader would answer io.EOF for an empty input and the decoder
// would never see it).
type datagram struct {
	b    []byte
	read bool
}

func (d *datagram) Read(p []byte) (int, error) {
	if d.read {
		return 0, io.EOF
	}
	d.read = true
	return copy(p, d.b), nil
}

// topRepoFrame names the innermost bisquitt function on a panic stack.
func topRepoFrame(stack string) string {
	lines := strings.Split(stack, "\n")
	for i := 0; i+1 < len(lines); i++ {
		if strings.Contains(lines[i+1], "/repo/") && strings.Contains(lines[i], "bisquitt/") {
			f := lines[i]
			f = f[strings.LastIndex(f, "/")+1:]
			if j := strings.LastIndex(f, "("); j > 0 {
				f = f[:j]
			}
			return f
		}
	}
	return "unknown"
}

type acc struct {
	n, accepted, rejected int
	viol                  map[string]explore.Violation
	kinds                 map[string]int
}

func newAccs() []*acc {
	a := make([]*acc, nWorkers())
	for i := range a {
		a[i] = &acc{viol: map[string]explore.Violation{}, kinds: map[string]int{}}
	}
	return a
}

func (a *acc) add(v explore.Violation) {
	if _, ok := a.viol[v.Sig]; !ok {
		a.viol[v.Sig] = v
	}
}

func merge(as []*acc) (n, accepted, rejected int, viol []explore.Violation, kinds map[string]int) {
	vm := map[string]explore.Violation{}
	kinds = map[string]int{}
	for _, a := range as {
		n += a.n
		accepted += a.accepted
		rejected += a.rejected
		for k, v := range a.viol {
			if old, ok := vm[k]; !ok || len(v.Detail) < len(old.Detail) {
				vm[k] = v
			}
		}
		for k, c := range a.kinds {
			kinds[k] += c
		}
	}
	keys := make([]string, 0, len(vm))
	for k := range vm {
		keys = append(keys, k)
	}
	sort.Strings(keys)
	for _, k := range keys {
		viol = append(viol, vm[k])
	}
	return
}

func hexs(b []byte) string {
	if len(b) > 40 {
		return fmt.Sprintf("%x...(%d bytes)", b[:36], len(b))
	}
	return fmt.Sprintf("%x", b)
}

func domainBlocks() []block {
	th := explore.Tier() == "thorough"
	return append(shortStringBlocks(th), structuralBlocks(th)...)
}

const domainRule = "all byte strings of length 0..2, all of length 3 (quick: first byte in {0,1,2,3,255}); structural domain: header form {1-octet length, 3-octet length} x announced length {true, 0, 255, 256, ...} x all 256 type bytes x body lengths (0..24, 249..262, AUTH 0..300; thorough adds 25..300, 4095..8190) x first two body bytes over the ranges the decoders branch on (flags byte full range, AUTH method length full range) x filler {0x00,0xFF}"

func TestC20(t *testing.T) {
	rep := explore.NewReport("C20", "exploration")
	accs := newAccs()
	sweep(domainBlocks(), func(w int, in []byte) {
		a := accs[w]
		a.n++
		p, err, site, msg := decode(in)
		switch {
		case site != "":
			a.kinds["panic"]++
			a.add(explore.Violation{Property: "C20", Sig: "panic@" + site, Detail: fmt.Sprintf("ReadPacket(%s) panicked: %s", hexs(in), msg), History: []string{hexs(in)}})
		case err != nil:
			a.rejected++
			a.kinds["error"]++
		case p == nil:
			a.add(explore.Violation{Property: "C20", Sig: "nil-packet-without-error", Detail: "ReadPacket returned (nil,nil) for " + hexs(in)})
		default:
			a.accepted++
			a.kinds[fmt.Sprintf("%T", p)]++
		}
	})
	n, accepted, rejected, viol, kinds := merge(accs)
	rep.Add(viol...)
	rep.Coverage = map[string]any{
		"evaluations":         n,
		"distinct_nontrivial": len(kinds),
		"accepted":            accepted,
		"rejected":            rejected,
		"outcome_classes":     kinds,
		"exhaustive":          true,
		"rule":                domainRule + "; every input is decoded by the real packets1.ReadPacket under recover; distinct_nontrivial = distinct outcome classes (decoded packet types, error, panic)",
		"samples":             []string{"", "01", "0100", "010004", "0304", "ff16", "0a0c00000100017061"},
	}
	rep.Assumptions = []string{"decoders branch only on the datagram length and the enumerated control bytes; other bytes are copied (by reading packets/ and packets1/)", "inputs outside the stated domain are not covered (coverage-guided fuzzing is a different technique and is not used)"}
	rep.Finish()
}

func TestC22(t *testing.T) {
	rep := explore.NewReport("C22", "exploration")
	accs := newAccs()
	sweep(domainBlocks(), func(w int, in []byte) {
		a := accs[w]
		a.n++
		p, err, site, _ := decode(in)
		if site != "" || err != nil || p == nil {
			a.rejected++
			return
		}
		a.accepted++
		got, merr := snmap.FromReal(p)
		if merr != nil {
			a.add(explore.Violation{Sig: "unmappable", Detail: merr.Error()})
			return
		}
		a.kinds[got.Name()]++
		ref, rerr := refsn.Decode(in)
		form := "short-form"
		if len(in) > 0 && in[0] == 1 {
			form = "long-form"
			if ref.Length <= 255 {
				form = "long-form-announcing<=255"
			}
		}
		if rerr != nil {
			a.add(explore.Violation{Property: "C22", Sig: "accepted-but-fields-missing:" + form, Detail: fmt.Sprintf("decoder accepted %s as %v but the datagram has no such fields: %v", hexs(in), p, rerr), History: []string{hexs(in)}})
			return
		}
		if got.Type != ref.Type {
			a.add(explore.Violation{Property: "C22", Sig: "wrong-type:" + form, Detail: fmt.Sprintf("%s decoded as %s, datagram says %s", hexs(in), got.Name(), ref.Name()), History: []string{hexs(in)}})
			return
		}
		if !snmap.Equal(got, ref) {
			a.add(explore.Violation{Property: "C22", Sig: "wrong-fields:" + got.Name() + ":" + form, Detail: fmt.Sprintf("%s decoded as %v, fields at the specified positions are %v", hexs(in), snmap.Norm(got), snmap.Norm(ref)), History: []string{hexs(in)}})
			return
		}
		// re-encoding reproduces type and body
		out, perr := p.Pack()
		if perr != nil {
			a.add(explore.Violation{Property: "C22", Sig: "repack-error:" + got.Name(), Detail: fmt.Sprintf("%s: Pack() failed: %v", hexs(in), perr)})
			return
		}
		ref2, rerr2 := refsn.Decode(out)
		if rerr2 != nil || !snmap.Equal(ref2, ref) {
			// The property exempts the length field: a packet decoded from a datagram with a misleading announced
			// length may be re-encoded with that length.  Judge type and body only: read them from the re-encoding
			// at both possible header sizes and put a correct length field in front.
			for _, hdr := range []int{2, 4} {
				if len(out) < hdr {
					continue
				}
				tb := out[hdr-1:]
				var canon []byte
				if n := len(tb) + 1; n <= 255 {
					canon = append([]byte{byte(n)}, tb...)
				} else {
					canon = append([]byte{1, byte((n + 2) >> 8), byte(n + 2)}, tb...)
				}
				if r3, e3 := refsn.Decode(canon); e3 == nil && snmap.Equal(r3, ref) {
					ref2, rerr2 = r3, nil
					break
				}
			}
		}
		if rerr2 != nil || !snmap.Equal(ref2, ref) {
			a.add(explore.Violation{Property: "C22", Sig: "repack-differs:" + got.Name() + ":" + form, Detail: fmt.Sprintf("%s re-encoded as %s (%v vs %v, %v)", hexs(in), hexs(out), snmap.Norm(ref), snmap.Norm(ref2), rerr2), History: []string{hexs(in)}})
		}
	})
	n, accepted, rejected, viol, kinds := merge(accs)
	rep.Add(viol...)
	rep.Coverage = map[string]any{
		"evaluations":         n,
		"distinct_nontrivial": len(kinds),
		"accepted":            accepted,
		"rejected":            rejected,
		"accepted_by_type":    kinds,
		"exhaustive":          true,
		"rule":                domainRule + "; every accepted input is compared field by field with the independent reference decoder (header length by the form used) and re-encoded; distinct_nontrivial = distinct message types among accepted inputs",
		"samples":             []string{"0a0c00000100017061", "01000a0c2000010002ff", "0218", "04180005"},
	}
	rep.Assumptions = []string{"reference decoder refsn written from MQTT-SN 1.2 sections 5.2-5.4", "inputs outside the stated domain are not covered"}
	rep.Finish()
}
