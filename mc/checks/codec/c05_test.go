package codec

import (
	"fmt"
	"sort"
	"testing"

	"github.com/energomonitor/bisquitt/topics"

	"verif/mc/explore"
)

// ---- C05: predefined topic lookups are mutually consistent ---------------------------

// reference: client-specific entry first, else the "*" entry
func refName(t topics.PredefinedTopics, client string, id uint16) (string, bool) {
	if m, ok := t[client]; ok {
		if n, ok := m[id]; ok {
			return n, true
		}
	}
	if m, ok := t["*"]; ok {
		if n, ok := m[id]; ok {
			return n, true
		}
	}
	return "", false
}

func cfgString(t topics.PredefinedTopics) string {
	var ks []string
	for c, m := range t {
		var ids []int
		for id := range m {
			ids = append(ids, int(id))
		}
		sort.Ints(ids)
		s := c + ":{"
		for _, id := range ids {
			s += fmt.Sprintf("%d:%q ", id, m[uint16(id)])
		}
		ks = append(ks, s+"}")
	}
	sort.Strings(ks)
	return fmt.Sprint(ks)
}

func TestC05(t *testing.T) {
	rep := explore.NewReport("C05", "exploration")
	vals := []string{"<absent>", "", "x", "y"}
	names := []string{"", "x", "y", "q", "x ", " y", "X"} // also names differing from configured ones only by blanks / case
	clients := []string{"c1", "c2", "*"}
	viol := map[string]explore.Violation{}
	add := func(sig, detail string) {
		if _, ok := viol[sig]; !ok {
			viol[sig] = explore.Violation{Property: "C05", Sig: sig, Detail: detail}
		}
	}
	n, configs, nontrivial := 0, 0, 0
	idDomain := []uint16{0, 1, 2, 3, 4}
	check := func(cfg topics.PredefinedTopics) {
		configs++
		shadow := false
		for _, c := range clients {
			for _, id := range idDomain {
				n++
				got, ok := cfg.GetTopicName(c, id)
				want, wok := refName(cfg, c, id)
				if got != want || ok != wok {
					add("name-by-id:precedence", fmt.Sprintf("config %s: GetTopicName(%q,%d) = (%q,%t), want (%q,%t)", cfgString(cfg), c, id, got, ok, want, wok))
				}
			}
			for _, name := range names {
				exists := false
				for _, id := range idDomain {
					if w, ok := refName(cfg, c, id); ok && w == name {
						exists = true
					}
				}
				// map iteration order is not controllable: repeat the call
				for rep := 0; rep < 8; rep++ {
					n++
					id, ok := cfg.GetTopicID(c, name)
					if ok {
						back, bok := refName(cfg, c, id)
						if !bok || back != name {
							shadow = true
							add("id-by-name:does-not-map-back", fmt.Sprintf("config %s: GetTopicID(%q,%q) = %d but that id reads back as (%q,%t) for this client", cfgString(cfg), c, name, id, back, bok))
						}
					} else if exists {
						add("id-by-name:incomplete", fmt.Sprintf("config %s: GetTopicID(%q,%q) finds nothing although an id resolves to that name", cfgString(cfg), c, name))
					}
				}
			}
		}
		_ = shadow
		if len(cfg["c1"]) > 0 && len(cfg["*"]) > 0 {
			nontrivial++
		}
	}
	// all maps {c1,*} x id{1,2,3} -> {absent,"",x,y}; a table with no entry is
	// enumerated both as missing and as empty
	for code := 0; code < 4096; code++ {
		for _, emptyTables := range []bool{false, true} {
			cfg := topics.PredefinedTopics{}
			if emptyTables {
				cfg["c1"] = map[uint16]string{}
				cfg["*"] = map[uint16]string{}
			}
			c := code
			for _, cl := range []string{"c1", "*"} {
				for id := uint16(1); id <= 3; id++ {
					v := c % 4
					c /= 4
					if v != 0 {
						cfg.Add(cl, vals[v], id)
					}
				}
			}
			if !emptyTables || len(cfg["c1"]) == 0 || len(cfg["*"]) == 0 {
				check(cfg)
			}
		}
	}
	// the ends of the 16-bit id range: all maps {c1,*} x id{0,1,0xFFFD,0xFFFE,0xFFFF} -> {absent,x,y}
	idDomain = []uint16{0, 1, 2, 0xFFFD, 0xFFFE, 0xFFFF}
	ends := []uint16{0, 1, 0xFFFD, 0xFFFE, 0xFFFF}
	for code := 0; code < 59049; code++ {
		cfg := topics.PredefinedTopics{}
		c := code
		for _, cl := range []string{"c1", "*"} {
			for _, id := range ends {
				v := c % 3
				c /= 3
				if v != 0 {
					cfg.Add(cl, vals[v+1], id)
				}
			}
		}
		check(cfg)
	}
	idDomain = []uint16{0, 1, 2, 3, 4}
	// the repository's own example file, through the real loader
	if cfg, err := topics.ReadPredefinedTopicsFile("/repo/topics/testdata/topics.yaml"); err == nil {
		names = append(names, "device/any/data", "device/any/config", "device/any/bcast", "device/000001/data")
		clients = append(clients, "client1")
		check(cfg)
	} else {
		rep.HarnessErr = "cannot load /repo/topics/testdata/topics.yaml: " + err.Error()
	}
	keys := make([]string, 0, len(viol))
	for k := range viol {
		keys = append(keys, k)
	}
	sort.Strings(keys)
	for _, k := range keys {
		rep.Add(viol[k])
	}
	rep.Coverage = map[string]any{
		"evaluations":         n,
		"distinct_nontrivial": nontrivial,
		"configurations":      configs,
		"exhaustive":          true,
		"rule":                "all 4096 maps {c1,*} x id{1,2,3} -> {absent,\"\",x,y} (tables without entries both missing and empty), all 59049 maps {c1,*} x id{0,1,0xFFFD,0xFFFE,0xFFFF} -> {absent,x,y} (the ends of the id range) plus topics/testdata/topics.yaml; client ids {c1,c2,*}; every id of the domain (0..4, resp. 0,1,2,0xFFFD..0xFFFF) and every name {\"\",x,y,q,\"x \",\" y\",X}; GetTopicName against the precedence reference, every GetTopicID result must read back as the same name, and an id must be found whenever one resolves to the name; non-trivial = configurations with entries in both tables",
		"samples":             []string{"c1:{1:\"x\"} *:{1:\"y\" 2:\"x\"}", "topics/testdata/topics.yaml"},
	}
	rep.Assumptions = []string{"Go map iteration order is not controllable: lookups by name are repeated 8 times per query"}
	rep.Finish()
}
