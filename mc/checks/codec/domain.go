// Package codec holds the bounded-exhaustive input enumerations (E3) for the
// packet codecs: C20 (no panic), C21 (round trip), C22 (faithful decoding).
package codec

import (
	"runtime"
	"sync"

	"verif/mc/ref/refsn"
)

// A block is one independently enumerable part of the input domain.
type block struct {
	name string
	gen  func(emit func([]byte))
}

// hdrVariant builds a header for (form, announced-length policy).
type hdrVariant struct {
	name string
	mk   func(typ byte, bodyLen int) []byte
}

func hdrVariants(thorough bool) []hdrVariant {
	short := func(name string, l func(n int) byte) hdrVariant {
		return hdrVariant{"short/" + name, func(t byte, n int) []byte { return []byte{l(n), t} }}
	}
	long := func(name string, l func(n int) int) hdrVariant {
		return hdrVariant{"long/" + name, func(t byte, n int) []byte { v := l(n); return []byte{1, byte(v >> 8), byte(v), t} }}
	}
	hv := []hdrVariant{
		short("true", func(n int) byte { return byte(n + 2) }),
		short("L=0", func(int) byte { return 0 }),
		short("L=255", func(int) byte { return 255 }),
		long("true", func(n int) int { return n + 4 }),
		long("L=0", func(int) int { return 0 }),
		long("L=255", func(int) int { return 255 }),
		long("L=256", func(int) int { return 256 }),
	}
	if thorough {
		hv = append(hv,
			short("L=2", func(int) byte { return 2 }),
			short("L=3", func(int) byte { return 3 }),
			short("L=254", func(int) byte { return 254 }),
			long("L=1", func(int) int { return 1 }),
			long("L=4", func(int) int { return 4 }),
			long("L=65535", func(int) int { return 65535 }),
		)
	}
	return hv
}

func defined(t byte) bool { _, ok := refsn.Names[t]; return ok }

// control bytes: the first two body bytes over the ranges the decoders branch on
func ctrl(t byte) (b0s, b1s []int) {
	full := make([]int, 256)
	for i := range full {
		full[i] = i
	}
	few := []int{0x00, 0xFF}
	switch t {
	case refsn.AUTH:
		return []int{0}, full
	case refsn.CONNECT:
		return []int{0x00, 0x04, 0x08, 0x0C, 0xFF}, []int{0, 1, 2, 255}
	case refsn.PUBLISH, refsn.SUBSCRIBE, refsn.UNSUBSCRIBE, refsn.SUBACK, refsn.WILLTOPIC, refsn.WILLTOPICUPD:
		return full, few
	}
	return few, few
}

func bodyLens(t byte, thorough bool) []int {
	var l []int
	add := func(a, b int) {
		for i := a; i <= b; i++ {
			l = append(l, i)
		}
	}
	if !defined(t) {
		return []int{0, 1}
	}
	switch t {
	case refsn.AUTH:
		if thorough {
			add(0, 600)
		} else {
			add(0, 300)
		}
	default:
		add(0, 24)
		add(249, 262)
	}
	if thorough {
		switch t {
		case refsn.PUBLISH, refsn.REGISTER, refsn.SUBSCRIBE, refsn.UNSUBSCRIBE, refsn.WILLMSG, refsn.WILLTOPIC, refsn.CONNECT, refsn.GWINFO, refsn.PINGREQ, refsn.WILLMSGUPD, refsn.WILLTOPICUPD:
			add(25, 248)
			add(263, 300)
			l = append(l, 4095, 4096, 7168, 8187, 8188, 8189, 8190)
		}
	} else if t == refsn.PUBLISH {
		l = append(l, 8188, 8190)
	}
	return l
}

func structuralBlocks(thorough bool) []block {
	var bl []block
	for t := 0; t < 256; t++ {
		t := byte(t)
		for _, hv := range hdrVariants(thorough) {
			hv := hv
			bl = append(bl, block{name: "struct/" + hv.name, gen: func(emit func([]byte)) {
				b0s, b1s := ctrl(t)
				for _, n := range bodyLens(t, thorough) {
					hdr := hv.mk(t, n)
					if len(hdr)+n > 8192 {
						continue // the property is about datagrams of up to MaxPacketLen bytes
					}
					for _, fill := range []byte{0x00, 0xFF} {
						buf := make([]byte, len(hdr)+n)
						copy(buf, hdr)
						for i := len(hdr); i < len(buf); i++ {
							buf[i] = fill
						}
						switch {
						case n == 0:
							emit(buf)
						case n == 1:
							for _, b0 := range b0s {
								buf[len(hdr)] = byte(b0)
								emit(buf)
							}
						default:
							for _, b0 := range b0s {
								for _, b1 := range b1s {
									buf[len(hdr)] = byte(b0)
									buf[len(hdr)+1] = byte(b1)
									emit(buf)
								}
							}
						}
					}
				}
			}})
		}
	}
	return bl
}

// all byte strings of length 0..3 (thorough) / 0..2 plus selected first bytes (quick)
func shortStringBlocks(thorough bool) []block {
	bl := []block{{name: "len0-2", gen: func(emit func([]byte)) {
		emit([]byte{})
		for a := 0; a < 256; a++ {
			emit([]byte{byte(a)})
			for b := 0; b < 256; b++ {
				emit([]byte{byte(a), byte(b)})
			}
		}
	}}}
	for a := 0; a < 256; a++ {
		a := a
		if !thorough && !(a <= 3 || a == 255) {
			continue
		}
		bl = append(bl, block{name: "len3", gen: func(emit func([]byte)) {
			buf := make([]byte, 3)
			buf[0] = byte(a)
			for b := 0; b < 256; b++ {
				for c := 0; c < 256; c++ {
					buf[1], buf[2] = byte(b), byte(c)
					emit(buf)
				}
			}
		}})
	}
	return bl
}

// sweep runs fn over every input of every block on all cores.  fn gets a
// per-goroutine accumulator index.
func sweep(blocks []block, fn func(worker int, in []byte)) {
	n := runtime.NumCPU()
	var wg sync.WaitGroup
	ch := make(chan block, len(blocks))
	for _, b := range blocks {
		ch <- b
	}
	close(ch)
	for w := 0; w < n; w++ {
		wg.Add(1)
		go func(w int) {
			defer wg.Done()
			for b := range ch {
				b.gen(func(in []byte) { fn(w, in) })
			}
		}(w)
	}
	wg.Wait()
}

func nWorkers() int { return runtime.NumCPU() }
