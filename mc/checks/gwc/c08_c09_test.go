package gwc

import (
	"bytes"
	"fmt"
	"testing"
	"time"

	"verif/mc/explore"
	"verif/mc/harness/gw"
	"verif/mc/ref/refmqtt"
	"verif/mc/ref/refsn"
)

// ---- C08 (authentication as configured) and C09 (will protocol, one CONNECT) ----
// Both are decided on the same state space: all orderings of the connect
// exchange packets.

type exchange struct {
	open      bool
	will      bool
	ka        uint16
	authOK    bool     // a well-formed PLAIN AUTH was seen in this exchange
	creds     []string // every well-formed user\x00pass seen in this exchange
	wills     []string // every WILLTOPIC seen: topic\x00qos\x00retain
	msgs      []string // every WILLMSG seen
	badMethod bool     // an AUTH with an unknown method was seen in this exchange
	gotTopic  bool
	gotMsg    bool
	connects  int // MQTT CONNECTs sent in this exchange
	topicReqs int
	msgReqs   int
}

type connmon struct {
	prop        string
	auth        bool
	cfgUser     *string
	cfgPass     []byte
	ex          exchange
	outstanding int
	alphabet    []string
}

func addUniq(l []string, s string) []string {
	if contains(l, s) {
		return l
	}
	return append(l, s)
}

func contains(l []string, s string) bool {
	for _, x := range l {
		if x == s {
			return true
		}
	}
	return false
}

func containsPrefix(l []string, p string) bool {
	for _, x := range l {
		if len(x) >= len(p) && x[:len(p)] == p {
			return true
		}
	}
	return false
}

func plainParts(data []byte) (user, pass string, ok bool) {
	parts := bytes.Split(data, []byte{0})
	if len(parts) != 3 {
		return "", "", false
	}
	return string(parts[1]), string(parts[2]), true
}

func (m *connmon) After(g *gw.GW, ev string, sn []gw.SNOut, mq []gw.MQOut, setup bool) []explore.Violation {
	var vs []explore.Violation
	add := func(prop, sig, f string, a ...any) {
		if prop == m.prop {
			vs = append(vs, explore.Violation{Property: prop, Sig: sig, Detail: fmt.Sprintf(f, a...) + " (event " + gw.Label(ev) + ")"})
		}
	}
	cp, isClient := clientPkt(ev)
	bp, isBroker := brokerPkt(ev)
	unknownMethodNow := false
	expectMsgReq, emptyTopic := false, false
	if isClient {
		switch cp.Type {
		case refsn.CONNECT:
			// a CONNECT with keep-alive 0 is refused and starts no exchange
			// (a pending one stays the current exchange)
			if cp.Duration != 0 {
				m.ex = exchange{open: true, will: cp.Will, ka: cp.Duration}
			}
		case refsn.AUTH:
			if m.ex.open {
				if cp.Str == "PLAIN" {
					if u, p, ok := plainParts(cp.Data); ok {
						m.ex.authOK = true
						m.ex.creds = addUniq(m.ex.creds, u+"\x00"+p)
					}
				} else {
					m.ex.badMethod = true
					unknownMethodNow = true
				}
			}
		case refsn.WILLTOPIC:
			if m.ex.open {
				// the first WILLTOPIC of an exchange that has asked for it (a legal one: the alphabet's topics are "w"
				// and the empty topic, which means "no will") must be answered with WILLMSGREQ
				expectMsgReq = m.ex.will && m.ex.topicReqs > 0 && !m.ex.gotTopic
				emptyTopic = cp.Str == ""
				m.ex.gotTopic = true
				m.ex.wills = addUniq(m.ex.wills, fmt.Sprintf("%s\x00%d\x00%t", cp.Str, cp.QoS, cp.Retain))
			}
		case refsn.WILLMSG:
			if m.ex.open {
				m.ex.gotMsg = true
				m.ex.msgs = addUniq(m.ex.msgs, string(cp.Data))
			}
		}
	}
	// ---- broker-bound packets
	for _, o := range mq {
		if o.P.Type != refmqtt.CONNECT {
			continue
		}
		p := o.P
		m.outstanding++
		m.ex.connects++
		if m.ex.connects > 1 {
			add("C09", "second-mqtt-connect-in-one-exchange:on="+onName(cp, isClient), "%d MQTT CONNECTs sent in one connect exchange", m.ex.connects)
		}
		if m.auth {
			if !m.ex.authOK {
				add("C08", "auth-on:connect-without-plain-auth:on="+onName(cp, isClient), "auth enabled: %s sent although the exchange contains no well-formed PLAIN AUTH", p)
			} else if !p.HasUser || !p.HasPass || !contains(m.ex.creds, p.User+"\x00"+string(p.Pass)) {
				// several AUTH packets in one exchange: the property does not say which one counts
				add("C08", "auth-on:connect-credentials-differ", "auth enabled: %s does not carry credentials of any well-formed AUTH of this exchange %q", p, m.ex.creds)
			}
		} else {
			wantU, wantP := m.cfgUser != nil, m.cfgPass != nil
			if p.HasUser != wantU || (wantU && p.User != *m.cfgUser) || p.HasPass != wantP || (wantP && string(p.Pass) != string(m.cfgPass)) {
				add("C08", "auth-off:connect-credentials-not-configured-ones:on="+onName(cp, isClient), "auth disabled: %s does not carry exactly the configured credentials (user set=%t, password set=%t)", p, wantU, wantP)
			}
		}
		if m.ex.badMethod {
			add("C08", "connect-after-unknown-auth-method", "%s sent after an AUTH with an unknown method in the same exchange", p)
		}
		if m.ex.will {
			switch {
			case !m.ex.gotMsg || !m.ex.gotTopic:
				add("C09", fmt.Sprintf("will:connect-before-will-data:topic=%t,msg=%t", m.ex.gotTopic, m.ex.gotMsg), "CONNECT with Will flag: %s sent before both WILLTOPIC and WILLMSG arrived", p)
			case p.WillTopic == "" && containsPrefix(m.ex.wills, "\x00"):
				// an empty WILLTOPIC was sent: "no will"; what the CONNECT must look like then is C24's subject
			case !p.WillFlag || !contains(m.ex.wills, fmt.Sprintf("%s\x00%d\x00%t", p.WillTopic, p.WillQoS, p.WillRetain)) || !contains(m.ex.msgs, string(p.WillMsg)):
				// several WILLTOPIC/WILLMSG in one exchange: any of them is accepted
				add("C09", "will:connect-will-data-differ", "%s does not carry a will topic/QoS/retain %q and message %q the client sent", p, m.ex.wills, m.ex.msgs)
			}
		} else if p.WillFlag {
			add("C09", "nowill:connect-has-will-flag", "CONNECT without Will flag, but %s", p)
		}
		if p.KeepAlive != m.ex.ka || p.ClientID != "c1" {
			add("C09", "connect-keepalive-or-id-differ", "%s: keep-alive %d / client id expected %d / c1", p, p.KeepAlive, m.ex.ka)
		}
	}
	// ---- datagrams to the client
	msgReqsBefore := m.ex.msgReqs
	connacks := []byte{}
	for _, o := range sn {
		if o.Err != nil {
			continue
		}
		switch o.P.Type {
		case refsn.WILLTOPICREQ:
			m.ex.topicReqs++
			if !m.ex.will {
				add("C09", "nowill:willtopicreq-sent", "WILLTOPICREQ sent although the CONNECT had no Will flag")
			}
		case refsn.WILLMSGREQ:
			m.ex.msgReqs++
			if !m.ex.will {
				add("C09", "nowill:willmsgreq-sent:on="+onName(cp, isClient), "WILLMSGREQ sent although the CONNECT had no Will flag")
			} else if !m.ex.gotTopic {
				add("C09", "will:willmsgreq-before-willtopic", "WILLMSGREQ sent before any WILLTOPIC")
			}
		case refsn.CONNACK:
			connacks = append(connacks, o.P.RC)
		}
	}
	if expectMsgReq && m.ex.msgReqs-msgReqsBefore != 1 {
		var names []string
		for _, o := range sn {
			names = append(names, o.String())
		}
		add("C09", fmt.Sprintf("will:willtopic-not-answered-with-willmsgreq:empty-topic=%t", emptyTopic), "the WILLTOPIC the gateway had asked for was answered with %v, want exactly one WILLMSGREQ", names)
	}
	if isBroker && bp.Type == refmqtt.CONNACK {
		m.outstanding--
		want := byte(1) // congestion
		if bp.RC == 0 {
			want = 0
		}
		// only the answer to the open exchange's CONNECT is judged (a second
		// CONNACK after a repeated CONNECT is outside the property)
		if m.ex.open && (len(connacks) != 1 || connacks[0] != want) {
			add("C09", fmt.Sprintf("connack-translation:broker-rc=%d", bp.RC), "broker CONNACK(%d): client got CONNACK codes %v, want [%d]", bp.RC, connacks, want)
		}
		m.ex.open = false
	} else if isClient && cp.Type == refsn.CONNECT && cp.Duration == 0 {
		if len(connacks) != 1 || connacks[0] != 3 {
			add("C09", "zero-keepalive-not-refused", "CONNECT with keep-alive 0: client got CONNACK codes %v, want [3 not supported]", connacks)
		}
		if len(mq) > 0 {
			add("C09", "zero-keepalive-forwarded", "CONNECT with keep-alive 0 was forwarded to the broker")
		}
	} else if unknownMethodNow {
		if len(connacks) != 1 || connacks[0] != 3 {
			add("C08", "unknown-auth-method-not-refused", "AUTH with unknown method %q: client got CONNACK codes %v, want [3 not supported]", cp.Str, connacks)
		}
	} else {
		for _, rc := range connacks {
			if rc == 0 {
				add("C09", "connack-accepted-without-broker-connack:on="+onName(cp, isClient), "client got CONNACK(accepted) without a broker CONNACK")
			}
		}
	}
	return vs
}

func (m *connmon) Key() string { return fmt.Sprintf("%+v out=%d", m.ex, m.outstanding) }
func (m *connmon) Class() string {
	return fmt.Sprintf("open=%t will=%t connects=%d", m.ex.open, m.ex.will, m.ex.connects)
}
func (m *connmon) Next(g *gw.GW) []string {
	if g.Returned {
		return nil
	}
	if m.outstanding > 0 {
		return m.alphabet
	}
	var a []string
	for _, e := range m.alphabet {
		if _, isB := brokerPkt(e); !isB {
			a = append(a, e)
		}
	}
	return a
}

func connAlphabet() []string {
	a := []string{
		gw.EvC("CONNECT(c1,30)", gw.Connect("c1", 30, false, true)),
		gw.EvC("CONNECT(c1,30,will)", gw.Connect("c1", 30, true, true)),
		gw.EvC("CONNECT(c1,0)", gw.Connect("c1", 0, false, true)),
		gw.EvC("AUTH(PLAIN u1/p1)", gw.AuthPlain("u1", "p1")),
		gw.EvC("AUTH(PLAIN u2/p2)", gw.AuthPlain("u2", "p2")),
		gw.EvC("AUTH(PLAIN u3/empty password)", gw.AuthPlain("u3", "")),
		gw.EvC("AUTH(PLAIN empty user/p4)", gw.AuthPlain("", "p4")),
		gw.EvC("AUTH(PLAIN 2 parts)", gw.AuthRaw("PLAIN", []byte("u\x00p"))),
		gw.EvC("AUTH(PLAIN 4 parts)", gw.AuthRaw("PLAIN", []byte("\x00u\x00p\x00x"))),
		gw.EvC("AUTH(method X)", gw.AuthRaw("X", []byte("\x00u\x00p"))),
		gw.EvC("AUTH(empty method)", gw.AuthRaw("", []byte("\x00u\x00p"))),
		gw.EvC("WILLTOPIC(w,q1,retain)", gw.WillTopic("w", 1, true)),
		gw.EvC("WILLTOPIC(empty)", gw.WillTopic("", 0, false)),
		gw.EvC("WILLMSG(m)", gw.WillMsg("m")),
		gw.EvC("WILLMSG(empty)", gw.WillMsg("")),
		gw.EvB("CONNACK(0)", refmqtt.EncConnack(0)),
		gw.EvB("CONNACK(4)", refmqtt.EncConnack(4)),
		gw.EvB("CONNACK(5)", refmqtt.EncConnack(5)),
		gw.EvB("CONNACK(1)", refmqtt.EncConnack(1)),
		gw.EvB("CONNACK(2)", refmqtt.EncConnack(2)),
		gw.EvB("CONNACK(3)", refmqtt.EncConnack(3)),
		gw.EvB("CONNACK(6 reserved)", refmqtt.EncConnack(6)),
	}
	return a
}

func connSpecs(prop string) []gw.Spec {
	var out []gw.Spec
	gu := "gwuser"
	for _, auth := range []bool{false, true} {
		for ci, creds := range []struct {
			u *string
			p []byte
		}{{nil, nil}, {&gu, []byte("gwpass")}, {&gu, nil}} {
			auth, creds := auth, creds
			cfg := gw.DefaultConfig()
			cfg.Auth, cfg.User, cfg.Password = auth, creds.u, creds.p
			out = append(out, gw.Spec{Name: fmt.Sprintf("auth=%t,creds=%d", auth, ci), Cfg: cfg, NewMonitor: func() gw.Monitor {
				return &connmon{prop: prop, auth: auth, cfgUser: creds.u, cfgPass: creds.p, alphabet: connAlphabet()}
			}})
		}
	}
	return out
}

// E2 (C09): the broker answers the MQTT CONNECT the moment it is written, so its CONNACK can be handled by the
// other thread before the thread that sent the CONNECT has finished its own bookkeeping of the exchange.
func c09e2() []gw.E2Spec {
	var out []gw.E2Spec
	for _, rc := range []byte{0, 5} {
		for _, will := range []bool{false, true} {
			rc, will := rc, will
			cfg := gw.DefaultConfig()
			name := fmt.Sprintf("e2:prompt broker CONNACK(%d), will=%t", rc, will)
			inject := []string{gw.EvC("CONNECT(c1,30)", gw.Connect("c1", 30, will, true))}
			sp := gw.E2Spec{Name: name, Cfg: cfg, Inject: inject,
				Auto: func(p refmqtt.Pkt) [][]byte {
					if p.Type == refmqtt.CONNECT {
						return [][]byte{refmqtt.EncConnack(rc)}
					}
					return nil
				},
				AutoClient: func(p refsn.Pkt, nth int) [][]byte {
					switch p.Type {
					case refsn.WILLTOPICREQ:
						return [][]byte{gw.WillTopic("w", 1, false)}
					case refsn.WILLMSGREQ:
						return [][]byte{gw.WillMsg("m")}
					}
					return nil
				},
				Then: []string{gw.EvAdvance(300 * time.Millisecond)}, Horizon: time.Second,
				Check: func(g *gw.GW, sn []gw.SNOut, mq []gw.MQOut) []explore.Violation {
					want := byte(0) // accepted
					if rc != 0 {
						want = 1 // congestion
					}
					var got []string
					n := 0
					for _, o := range sn {
						got = append(got, o.String())
						if o.Err == nil && o.P.Type == refsn.CONNACK {
							n++
							if o.P.RC != want {
								n = -100
							}
						}
					}
					if n != 1 {
						return []explore.Violation{{Property: "C09", Sig: fmt.Sprintf("e2:connack-translation:broker-rc=%d", rc), Detail: fmt.Sprintf("the broker answered the MQTT CONNECT at once with return code %d: the client got %v, want exactly one CONNACK with return code %d", rc, got, want)}}
					}
					return nil
				}}
			out = append(out, sp)
		}
	}
	return out
}

func runConn(t *testing.T, prop, test string) {
	specs := connSpecs(prop)
	if explore.IsWorker() {
		if prop == "C09" {
			gw.ServeAll(t, specs, c09e2())
			return
		}
		gw.ServeBFS(t, specs)
		return
	}
	rep := explore.NewReport(prop, "model_checking")
	depth := 5
	if explore.Tier() == "thorough" {
		depth = 7
	}
	gw.BFSCheck(rep, specs, gw.BFSOpts{Test: test, Depth: depth}, 120, 900)
	rep.Coverage["rule"] = "breadth-first search over all orderings of CONNECT{will,no will,keep-alive 0} / AUTH{PLAIN x2, malformed x2, unknown method, empty method} / WILLTOPIC{non-empty,empty} / WILLMSG{m,empty} / broker CONNACK{0..6} (only while a CONNECT is unanswered), for auth on/off x gateway credentials {none, user+password, user only}; monitor per connect exchange"
	rep.Assumptions = []string{"BFS part: default schedule (no preemption within one event)", "the broker answers only CONNECTs it received"}
	if prop == "C09" {
		explore.RunScenarios(rep, gw.Scenarios(t, c09e2()), explore.ScenarioOpts{Test: test, QuickBound: 2, ThoroughFrom: 2, ThoroughMax: 4, Unbounded: true,
			QuickBudget: 60 * time.Second, ThoroughBudge: 5 * time.Minute})
		rep.Coverage["rule"] = fmt.Sprint(rep.Coverage["rule"]) + "; E2 part: CONNECT (with and without will) against a broker that answers the MQTT CONNECT the moment it is written (return codes 0 and 5), all interleavings of the handler's threads within the preemption bound: exactly one CONNACK, accepted resp. congestion"
	}
	rep.Finish()
}

func TestC08(t *testing.T) { runConn(t, "C08", "TestC08") }
func TestC09(t *testing.T) { runConn(t, "C09", "TestC09") }
