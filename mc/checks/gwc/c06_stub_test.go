package gwc

import "verif/mc/harness/gw"

func c06specs() []gw.Spec { return c11specs() }
