package gwc

import (
	"fmt"
	"strings"
	"testing"
	"time"

	"github.com/energomonitor/bisquitt/topics"

	"verif/mc/explore"
	"verif/mc/harness/gw"
	"verif/mc/ref/refmqtt"
	"verif/mc/ref/refsn"
	"verif/mc/vsched"
)

// ---- C13 (sessions terminate cleanly) and C14 (MQTT DISCONNECT only on a plain
// client DISCONNECT): every termination cause in every reachable state -------------

type c13mon struct {
	prop        string
	prevState   string
	outstanding int
	depth       int
	maxDepth    int
	cause       string
	alphabet    []string
	causes      []string
	mqttDisc    int // MQTT DISCONNECTs written so far
	stalled     bool
	unreachable bool
	connecting  bool // a connect exchange is in progress
}

var c13causes = map[string]string{}

func c13causeEvents() []string {
	mk := func(name, ev string) string {
		e := "CAUSE " + name + "|" + ev[strings.LastIndex(ev, "|")+1:]
		c13causes[e] = name
		return e
	}
	return []string{
		mk("gateway-shutdown", gw.EvShutdown),
		mk("client-DISCONNECT", gw.EvC("", gw.Disconnect(0))),
		mk("broker-closes", gw.EvBrokerClose),
		mk("broker-garbage", gw.EvB("", []byte{0xF0, 0x00})),
		mk("undecodable-datagram", gw.EvC("", []byte{0x05})),
		mk("unsupported-packet", gw.EvC("", refsn.Pkt{Type: refsn.ADVERTISE, GwID: 1, Duration: 5}.Encode())),
		mk("client-sleeps", gw.EvC("", gw.Disconnect(7))),
		mk("client-connection-closed", gw.EvClientEOF),
	}
}

func (m *c13mon) After(g *gw.GW, ev string, sn []gw.SNOut, mq []gw.MQOut, setup bool) []explore.Violation {
	var vs []explore.Violation
	add := func(prop, sig, f string, a ...any) {
		if prop == m.prop {
			vs = append(vs, explore.Violation{Property: prop, Sig: sig, Detail: fmt.Sprintf(f, a...) + fmt.Sprintf(" (cause %s in state %s)", m.cause, m.prevState)})
		}
	}
	for _, st := range steps(ev) {
		if st.kind == "B" && st.mq.Type == refmqtt.CONNACK {
			m.outstanding--
		}
	}
	for _, o := range mq {
		if o.P.Type == refmqtt.CONNECT {
			m.outstanding++
		}
	}
	name, isCause := c13causes[ev]
	if !isCause {
		m.depth++
		if ev == gw.EvStall {
			m.stalled = true
		}
		if ev == gw.EvUnreachable {
			m.unreachable = true
		}
		for _, o := range mq {
			if o.P.Type == refmqtt.DISCONNECT {
				m.mqttDisc++
				add("C14", "mqtt-disconnect-without-client-disconnect:on="+gw.Label(ev), "MQTT DISCONNECT sent to the broker on %s", gw.Label(ev))
			}
		}
		m.prevState = g.H.VState().String()
		m.connecting = false
		for _, tx := range g.H.VTransactions() {
			if strings.HasPrefix(tx, "typeCONNECT=") {
				m.connecting = true
			}
		}
		return vs
	}
	m.cause = name
	t0 := g.S.Now().Sub(vsched.Epoch)
	// let the session end: connection polls run; nothing else is due within 300 ms
	g.S.Advance(300 * time.Millisecond)
	sn = append(sn, g.TakeSN()...)
	mq = append(mq, g.TakeMQ()...)
	nDisc := 0
	for _, o := range sn {
		if o.Err == nil && o.P.Type == refsn.DISCONNECT {
			nDisc++
		}
	}
	mqDisc, mqLastIsDisc := 0, false
	for _, o := range mq {
		mqLastIsDisc = o.P.Type == refmqtt.DISCONNECT
		if mqLastIsDisc {
			mqDisc++
		}
	}
	sleeps := name == "client-sleeps"
	wasConnected := m.prevState == "active" || m.prevState == "awake"
	if sleeps && m.prevState != "disconnected" {
		// going to sleep does not end the session; C14: it must not tell the broker
		if mqDisc != 0 {
			add("C14", "mqtt-disconnect-on-sleep", "DISCONNECT with a sleep duration made the gateway send MQTT DISCONNECT")
		}
		if g.Returned && !m.unreachable && !m.connecting {
			// (a client in the middle of a connect exchange is not connected: its DISCONNECT(duration) is refused)
			// (when the reply cannot be sent the session legitimately ends with that error)
			add("C13", "sleep-ended-session", "DISCONNECT with a sleep duration ended the session")
		}
		m.prevState = g.H.VState().String()
		return vs
	}
	// ---- C13
	switch {
	case !g.Returned:
		add("C13", "session-does-not-end:"+name, "session still alive 300 ms after the cause; parked threads %v", g.S.ParkedLabels())
	case g.RetAt > t0+100*time.Millisecond:
		add("C13", "session-ends-late:"+name, "session ended %v after the cause (bound: one 100 ms poll interval)", g.RetAt-t0)
	}
	if g.Returned && g.Dialed > 0 && !g.BrokerConnClosed() {
		add("C13", "broker-connection-not-closed:"+name, "session ended without closing the broker connection")
	}
	wantDisc := 0
	if name == "client-DISCONNECT" {
		wantDisc = 1 // the single reply to the client's own DISCONNECT
	} else if wasConnected {
		wantDisc = 1
	}
	if m.unreachable {
		// nothing reaches the client any more: what the gateway tried to send it is not observable
		wantDisc = nDisc
	}
	if nDisc != wantDisc {
		add("C13", fmt.Sprintf("client-disconnect-count:%s:state=%s:got=%d", name, m.prevState, nDisc), "client received %d DISCONNECT datagrams, want %d", nDisc, wantDisc)
	}
	if g.Returned {
		// timers that outlive the session must not leave goroutines behind
		for i := 0; i < 40 && g.S.FireNext(); i++ {
		}
		if live := g.S.Live(); live > 0 {
			add("C13", "goroutines-outlive-session:"+name, "%d goroutine(s) of the session still alive after it returned: %v", live, g.S.ParkedLabels())
		}
		late := g.TakeSN()
		if len(late) > 0 {
			add("C13", "datagram-after-session-end:"+name, "datagram %v sent after the session ended", late[0])
		}
	}
	// ---- C14
	if name == "client-DISCONNECT" {
		if m.prevState != "disconnected" && (mqDisc != 1 || !mqLastIsDisc) {
			add("C14", "client-disconnect-not-forwarded", "client DISCONNECT: %d MQTT DISCONNECT(s) written, last packet is DISCONNECT=%t", mqDisc, mqLastIsDisc)
		}
	} else if mqDisc != 0 {
		add("C14", "mqtt-disconnect-on:"+name, "MQTT DISCONNECT sent to the broker although the session ended by %s (the will must be published)", name)
	}
	return vs
}

func (m *c13mon) Key() string {
	return fmt.Sprintf("prev=%s out=%d d=%d cause=%s stalled=%t unreachable=%t connecting=%t", m.prevState, m.outstanding, m.depth, m.cause, m.stalled, m.unreachable, m.connecting)
}
func (m *c13mon) Class() string {
	if m.cause != "" {
		return "cause:" + m.cause + "@" + m.prevState
	}
	return "state:" + m.prevState
}
func (m *c13mon) Next(g *gw.GW) []string {
	// a session that is already shutting down (error returned, polls pending) is not a state to inject causes into
	if g.Returned || g.H.VEnding() || m.cause != "" {
		return nil
	}
	a := append([]string{}, m.causes...)
	if m.stalled {
		// a session blocked writing to a broker that does not read cannot see client datagrams (backpressure);
		// it must still end on shutdown and when the broker connection dies
		a = nil
		for _, c := range m.causes {
			if n := c13causes[c]; n == "gateway-shutdown" || n == "broker-closes" {
				a = append(a, c)
			}
		}
	}
	if m.depth >= m.maxDepth {
		return a
	}
	for _, e := range m.alphabet {
		if e == gw.EvStall && (m.stalled || g.Dialed == 0) {
			continue
		}
		if e == gw.EvUnreachable && m.unreachable {
			continue
		}
		if p, isB := brokerPkt(e); isB && p.Type == refmqtt.CONNACK && m.outstanding <= 0 {
			continue
		}
		a = append(a, e)
	}
	return a
}

func c13alphabet() []string {
	return []string{
		gw.EvC("CONNECT(c1,10)", gw.Connect("c1", 10, false, true)),
		gw.EvC("CONNECT(c1,10,will)", gw.Connect("c1", 10, true, true)),
		gw.EvC("AUTH(PLAIN u/p)", gw.AuthPlain("u", "p")),
		gw.EvC("WILLTOPIC(w)", gw.WillTopic("w", 1, false)),
		gw.EvC("WILLMSG(m)", gw.WillMsg("m")),
		gw.EvB("CONNACK(0)", refmqtt.EncConnack(0)),
		gw.EvC("REGISTER r/1", gw.Register(0, 7, "r/1")),
		gw.Ev("SUBSCRIBE w/# + SUBACK", gw.EvC("", gw.SubscribeName(9, "w/#", 1, false)), gw.EvB("", refmqtt.EncSuback(9, 1))),
		gw.EvC("PUBLISH(q1,predef 1)", gw.Publish(1, 1, 3, 1, false, false, "x")),
		gw.EvB("broker PUBLISH(p/1,q1)", refmqtt.EncPublish("p/1", 1, false, false, 5, []byte("b"))),
		gw.EvB("broker PUBLISH(w/n,q2)", refmqtt.EncPublish("w/n", 2, false, false, 6, []byte("b"))),
		gw.EvB("broker PUBLISH(xy,q0)", refmqtt.EncPublish("xy", 0, false, false, 0, []byte("b"))),
		gw.EvC("DISCONNECT(5)", gw.Disconnect(5)),
		gw.EvC("DISCONNECT(256)", gw.Disconnect(256)), // a duration whose low octet is 0
		gw.EvC("PINGREQ", gw.Pingreq("c1")),
		gw.EvAdvance(6 * time.Second),
		gw.EvStall,
		gw.EvUnreachable,
	}
}

func c13specs(prop string) []gw.Spec {
	depth := 5
	if explore.Tier() == "thorough" {
		depth = 7
	}
	causes := c13causeEvents()
	var out []gw.Spec
	for _, auth := range []bool{false, true} {
		auth := auth
		cfg := gw.DefaultConfig()
		cfg.Auth = auth
		cfg.Predefined = topics.PredefinedTopics{"*": {1: "p/1"}}
		out = append(out, gw.Spec{Name: fmt.Sprintf("auth=%t", auth), Cfg: cfg, NoSettle: true, Livelock: prop == "C13", NewMonitor: func() gw.Monitor {
			return &c13mon{prop: prop, prevState: "disconnected", maxDepth: depth, alphabet: c13alphabet(), causes: causes}
		}})
	}
	return out
}

// E2: the termination cause races with an in-flight event / a retry or connect timer.
func c13e2(prop string) []gw.E2Spec {
	cfg := gw.DefaultConfig()
	cfg.Predefined = topics.PredefinedTopics{"*": {1: "p/1"}}
	cfg.RetryDelay = 2 * time.Second
	cfg.RetryCount = 2
	settle := []string{gw.EvAdvance(300 * time.Millisecond), gw.EvTimer, gw.EvTimer, gw.EvTimer, gw.EvTimer, gw.EvAdvance(300 * time.Millisecond)}
	check := func(cause string, wantDisc int) func(g *gw.GW, sn []gw.SNOut, mq []gw.MQOut) []explore.Violation {
		return func(g *gw.GW, sn []gw.SNOut, mq []gw.MQOut) []explore.Violation {
			var vs []explore.Violation
			add := func(p, sig, f string, a ...any) {
				if p == prop {
					vs = append(vs, explore.Violation{Property: p, Sig: sig, Detail: fmt.Sprintf(f, a...)})
				}
			}
			if !g.Returned {
				add("C13", "e2:session-does-not-end:"+cause, "session still alive after the cause and all timers; parked %v", g.S.ParkedLabels())
				return vs
			}
			if live := g.S.Live(); live > 0 {
				add("C13", "e2:goroutines-outlive-session:"+cause, "%d goroutine(s) alive after the session returned: %v", live, g.S.ParkedLabels())
			}
			nDisc, after := 0, 0
			for _, o := range sn {
				if o.Err == nil && o.P.Type == refsn.DISCONNECT {
					nDisc++
				}
				if o.At > g.RetAt {
					after++
				}
			}
			if after > 0 {
				add("C13", "e2:datagram-after-session-end:"+cause, "%d datagram(s) sent to the client after the session had returned", after)
			}
			if wantDisc >= 0 && nDisc != wantDisc {
				add("C13", fmt.Sprintf("e2:client-disconnect-count:%s:got=%d", cause, nDisc), "client received %d DISCONNECT datagrams, want %d", nDisc, wantDisc)
			}
			if wantDisc < -1 && nDisc > -wantDisc-1 {
				add("C13", fmt.Sprintf("e2:client-disconnect-count:%s:got=%d", cause, nDisc), "client received %d DISCONNECT datagrams, want at most %d (the reply to its own DISCONNECT; a client that disconnects itself gets no DISCONNECT of an ending session)", nDisc, -wantDisc-1)
			}
			mqDisc := 0
			for i, o := range mq {
				if o.P.Type == refmqtt.DISCONNECT {
					mqDisc++
					if i != len(mq)-1 {
						add("C14", "e2:packet-after-mqtt-disconnect:"+mq[i+1].P.Name(), "the gateway wrote %s to the broker after its MQTT DISCONNECT (the DISCONNECT must be the last packet before the connection is closed)", mq[i+1].P.Name())
					}
				}
			}
			if want := map[bool]int{true: 1, false: 0}[cause == "client-DISCONNECT"]; mqDisc != want {
				add("C14", "e2:mqtt-disconnect-count:"+cause, "%d MQTT DISCONNECT(s) written, want %d", mqDisc, want)
			}
			if !g.BrokerConnClosed() {
				add("C13", "e2:broker-connection-not-closed:"+cause, "broker connection not closed")
			}
			return vs
		}
	}
	active := connectSetup("c1", 10)
	pendingQ1 := append(append([]string{}, active...), gw.EvB("broker PUBLISH(p/1,q1)", refmqtt.EncPublish("p/1", 1, false, false, 5, []byte("b"))))
	pendingReg := append(append([]string{}, active...), gw.Ev("SUBSCRIBE w/# + SUBACK", gw.EvC("", gw.SubscribeName(9, "w/#", 1, false)), gw.EvB("", refmqtt.EncSuback(9, 1))),
		gw.EvB("broker PUBLISH(w/n,q2)", refmqtt.EncPublish("w/n", 2, false, false, 6, []byte("b"))))
	connecting := []string{gw.EvC("CONNECT(c1,10)", gw.Connect("c1", 10, false, true))}
	mk := func(name string, setup []string, horizon time.Duration, wantDisc int, cause string, inject ...string) gw.E2Spec {
		return gw.E2Spec{Name: "e2:" + name, Cfg: cfg, Setup: setup, Inject: inject, Then: settle, TimerChoices: true, Horizon: horizon, Check: check(cause, wantDisc)}
	}
	asleep := append(append([]string{}, active...), gw.EvC("DISCONNECT(5)", gw.Disconnect(5)))
	// a client that goes to sleep the moment it sees CONNACK: the connect exchange must be over by then
	sleepAtOnce := gw.E2Spec{Name: "e2:client sleeps the moment it gets CONNACK", Cfg: cfg, Setup: connecting,
		Inject: []string{gw.EvB("CONNACK(0)", refmqtt.EncConnack(0))},
		AutoClient: func(p refsn.Pkt, nth int) [][]byte {
			if p.Type == refsn.CONNACK {
				return [][]byte{gw.Disconnect(5)}
			}
			return nil
		},
		Then: []string{gw.EvAdvance(300 * time.Millisecond)}, Horizon: time.Second,
		Check: func(g *gw.GW, sn []gw.SNOut, mq []gw.MQOut) []explore.Violation {
			if prop != "C13" {
				return nil
			}
			var names []string
			for _, o := range sn {
				names = append(names, o.String())
			}
			if g.Returned || g.H.VState().String() != "asleep" {
				return []explore.Violation{{Property: "C13", Sig: "e2:sleep-right-after-connack-ends-session", Detail: fmt.Sprintf("the client answered CONNACK with DISCONNECT(5): session returned=%t state=%s, client got %v", g.Returned, g.H.VState(), names)}}
			}
			return nil
		}}
	// a real broker closes the connection as soon as it has read DISCONNECT: the end of the broker connection
	// races with the rest of the handling of the client's DISCONNECT.  C13 forbids a DISCONNECT of the ending
	// session to a client that disconnected itself (so at most the one reply); it does not demand that the
	// reply wins the race against the end of the session (wantDisc -2 = at most 1).
	closing := func(sp gw.E2Spec) gw.E2Spec {
		sp.Name += " (broker closes on DISCONNECT)"
		sp.CloseOn = func(p refmqtt.Pkt) bool { return p.Type == refmqtt.DISCONNECT }
		return sp
	}
	return []gw.E2Spec{
		sleepAtOnce,
		closing(mk("client-DISCONNECT|active", active, time.Second, -2, "client-DISCONNECT", gw.EvC("DISCONNECT(0)", gw.Disconnect(0)))),
		closing(mk("client-DISCONNECT|asleep", asleep, time.Second, -2, "client-DISCONNECT", gw.EvC("DISCONNECT(0)", gw.Disconnect(0)))),
		closing(mk("client-DISCONNECT|pending broker q1", pendingQ1, 7*time.Second, -2, "client-DISCONNECT", gw.EvC("DISCONNECT(0)", gw.Disconnect(0)))),
		mk("client-DISCONNECT|sleep pinger just started by a wake-up", asleep, time.Second, 1, "client-DISCONNECT", gw.EvC("PINGREQ(wake)", gw.Pingreq("c1")), gw.EvC("DISCONNECT(0)", gw.Disconnect(0))),
		mk("client-DISCONNECT|sleep pinger just started by DISCONNECT(d)", active, time.Second, 2 /* one reply to each of the client's two DISCONNECTs */, "client-DISCONNECT", gw.EvC("DISCONNECT(5)", gw.Disconnect(5)), gw.EvC("DISCONNECT(0)", gw.Disconnect(0))),
		mk("shutdown|retry-timer(pending q1)", pendingQ1, 7*time.Second, 1, "gateway-shutdown", gw.EvShutdown),
		mk("client-DISCONNECT|retry-timer(pending q1)", pendingQ1, 7*time.Second, 1, "client-DISCONNECT", gw.EvC("DISCONNECT(0)", gw.Disconnect(0))),
		mk("broker-closes|retry-timer(pending REGISTER)", pendingReg, 7*time.Second, 1, "broker-closes", gw.EvBrokerClose),
		mk("shutdown|connect-timer", connecting, 6*time.Second, 0, "gateway-shutdown", gw.EvShutdown),
		mk("shutdown|broker PUBLISH q1", active, time.Second, 1, "gateway-shutdown", gw.EvShutdown, gw.EvB("broker PUBLISH(p/1,q1)", refmqtt.EncPublish("p/1", 1, false, false, 5, []byte("b")))),
		mk("undecodable-datagram|broker PUBLISH q0", active, time.Second, 1, "undecodable-datagram", gw.EvC("garbage", []byte{0x05}), gw.EvB("broker PUBLISH(xy,q0)", refmqtt.EncPublish("xy", 0, false, false, 0, []byte("b")))),
	}
}

func runTermination(t *testing.T, prop, test string) {
	specs := c13specs(prop)
	if explore.IsWorker() {
		gw.ServeAll(t, specs, c13e2(prop))
		return
	}
	rep := explore.NewReport(prop, "model_checking")
	gw.BFSCheck(rep, specs, gw.BFSOpts{Test: test}, 240, 1500)
	rep.Coverage["rule"] = "BFS (depth 4, thorough 5) over a protocol alphabet that reaches disconnected / connecting (auth, will) / active / asleep with and without pinger / awake / pending client QoS 1 / pending broker QoS 1 and 2 / pending gateway REGISTER / an expired sleep period (6 s pass) / a send to a broker that has stopped reading (blocked write) / a client that has become unreachable (sends to it fail); in every reached state every termination cause (gateway shutdown, client DISCONNECT, broker close, broker garbage, undecodable datagram, unsupported packet, the client's transport connection ending, going to sleep) is injected, 300 ms of virtual time pass, and the monitor checks: return within one poll interval, broker connection closed, DISCONNECT datagrams to the client, MQTT DISCONNECT only for the client's plain DISCONNECT, no session goroutine alive after firing all remaining timers"
	explore.RunScenarios(rep, gw.Scenarios(t, c13e2(prop)), explore.ScenarioOpts{Test: test, QuickBound: 2, ThoroughFrom: 2, ThoroughMax: 3,
		QuickBudget: 90 * time.Second, ThoroughBudge: 8 * time.Minute})
	rep.Assumptions = []string{"BFS part: default schedule (the cause racing with an in-flight event is explored by the E2 part of C13 where present)", "virtual time; pending send time is zero in the in-memory model"}
	rep.Finish()
}

func TestC13(t *testing.T) { runTermination(t, "C13", "TestC13") }
func TestC14(t *testing.T) { runTermination(t, "C14", "TestC14") }
