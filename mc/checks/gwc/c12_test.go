package gwc

import (
	"fmt"
	"testing"
	"time"

	"verif/mc/explore"
	"verif/mc/harness/gw"
	"verif/mc/ref/refmqtt"
	"verif/mc/ref/refsn"
	"verif/mc/vsched"
)

// ---- C12: broker keep-alive is kept for connected and sleeping clients -----------
//
// Timed histories on a 1 s grid, keep-alive K = 4 s.  The environment (client)
// is constrained by its own obligations; histories that break one are pruned.

const c12K = 4

type c12mon struct {
	view       string // active asleep
	lastClient time.Duration
	lastBroker time.Duration
	sleepFrom  time.Duration
	sleepDur   time.Duration
	ticks      int
	maxTicks   int
	broke      bool // the client broke an obligation: nothing is judged any more
	ended      bool
	worst      time.Duration
	now        time.Duration
	since      []string      // client packets since the last broker-bound packet
	clientK    time.Duration // the keep-alive the client announced last (its obligation while active)
}

func (m *c12mon) k() time.Duration {
	if m.clientK == 0 {
		return c12K * time.Second
	}
	return m.clientK
}

func (m *c12mon) After(g *gw.GW, ev string, sn []gw.SNOut, mq []gw.MQOut, setup bool) []explore.Violation {
	var vs []explore.Violation
	now := g.S.Now().Sub(vsched.Epoch)
	m.now = now
	if len(mq) > 0 {
		defer func() { m.since = nil }()
	}
	for _, o := range mq {
		// the window is judged at the moment each packet is written and at every tick
		if gap := o.At - m.lastBroker; !setup && !m.broke && gap > 6*time.Second {
			vs = append(vs, m.viol(gap, ev))
		}
		m.lastBroker = o.At
	}
	if setup {
		m.lastClient = now
		m.view = "active"
		return nil
	}
	for _, st := range steps(ev) {
		switch st.kind {
		case "T":
			m.ticks++
		case "C":
			if m.view == "active" && now-m.lastClient > m.k() {
				m.broke = true // too late: the client did not send anything for a whole keep-alive period
			}
			if m.view == "asleep" && now-m.sleepFrom > m.sleepDur {
				m.broke = true
			}
			m.lastClient = now
			m.since = append(m.since, st.sn.Name())
			switch {
			case st.sn.Type == refsn.DISCONNECT && st.sn.Duration > 0:
				m.view, m.sleepFrom, m.sleepDur = "asleep", now, time.Duration(st.sn.Duration)*time.Second
			case st.sn.Type == refsn.PINGREQ && m.view == "asleep":
				m.sleepFrom = now // awake for the flush, asleep again for the announced duration
			case st.sn.Type == refsn.CONNECT:
				m.view = "active"
				m.clientK = time.Duration(st.sn.Duration) * time.Second
			}
		}
	}
	// obligations of the client
	switch m.view {
	case "active":
		if now-m.lastClient > m.k() {
			m.broke = true
		}
	case "asleep":
		if now-m.sleepFrom > m.sleepDur {
			m.broke = true
		}
	}
	if gap := now - m.lastBroker; !m.broke && gap > 6*time.Second && len(vs) == 0 {
		vs = append(vs, m.viol(gap, ev))
	}
	if g.Returned && !m.broke && !m.ended {
		vs = append(vs, explore.Violation{Sig: "session-ended:view=" + m.view, Detail: fmt.Sprintf("the session of a client that met its obligations ended at %v (event %s)", now, gw.Label(ev))})
	}
	m.ended = g.Returned
	return vs
}

func (m *c12mon) viol(gap time.Duration, ev string) explore.Violation {
	how := m.view
	if m.view == "active" && len(m.since) > 0 {
		only := true
		for _, n := range m.since {
			if n != "REGISTER" && n != "REGACK" {
				only = false
			}
		}
		if only {
			how += ":client-sent-only-REGISTER/REGACK"
		}
	}
	if m.view == "active" && m.k() != c12K*time.Second {
		// the client woke up with a CONNECT announcing another keep-alive and keeps that one
		how = "active:keep-alive-announced-by-wake-up-connect-unknown-to-broker"
	}
	if m.view == "asleep" {
		if m.sleepDur > c12K*time.Second {
			how += ":duration>keepalive"
		} else {
			how += ":duration<=keepalive"
		}
	}
	return explore.Violation{Sig: "broker-silence-exceeds-1.5-keepalive:" + how,
		Detail: fmt.Sprintf("gateway sent the broker nothing for %v (keep-alive of the MQTT CONNECT %d s, limit 6 s) although the client met its obligations (view %s, keep-alive announced last %v, sleep duration %v; event %s)", gap, c12K, m.view, m.k(), m.sleepDur, gw.Label(ev))}
}

func (m *c12mon) Key() string {
	return fmt.Sprintf("view=%s dc=%v db=%v sl=%v/%v broke=%t ticks>=max:%t since=%v k=%v", m.view, m.lastClientAgo(), m.lastBrokerAgo(), m.sleepAgo(), m.sleepDur, m.broke, m.ticks >= m.maxTicks, m.since, m.k())
}

// the key uses offsets from now, not absolute instants, so that the search can reach a fixpoint
func (m *c12mon) lastClientAgo() time.Duration { return m.now - m.lastClient }
func (m *c12mon) lastBrokerAgo() time.Duration { return m.now - m.lastBroker }
func (m *c12mon) sleepAgo() time.Duration {
	if m.view != "asleep" {
		return 0
	}
	return m.now - m.sleepFrom
}
func (m *c12mon) Class() string { return fmt.Sprintf("%s broke=%t", m.view, m.broke) }

func (m *c12mon) Next(g *gw.GW) []string {
	if g.Returned || g.H.VEnding() || m.broke || m.ticks >= m.maxTicks {
		return nil
	}
	tick := gw.EvAdvance(time.Second)
	with := func(label string, raw []byte) string { return gw.Ev("+1s "+label, tick, gw.EvC("", raw)) }
	a := []string{gw.Ev("+1s idle", tick)}
	switch m.view {
	case "active":
		a = append(a, with("PINGREQ", gw.Pingreq("")), with("PUBLISH(q0,xy)", gw.Publish(2, gw.ShortID("xy"), 0, 0, false, false, "x")),
			with("REGISTER r/1", gw.Register(0, 3, "r/1")))
		for _, d := range []uint16{2, 6, 10} {
			a = append(a, with(fmt.Sprintf("DISCONNECT(%d)", d), gw.Disconnect(d)))
		}
	case "asleep":
		a = append(a, with("PINGREQ(wake)", gw.Pingreq("c1")), with("CONNECT", gw.Connect("c1", c12K, false, false)))
		// a wake-up CONNECT is not forwarded: the broker keeps the keep-alive of the session's MQTT CONNECT, whatever
		// this one announces; the client of these histories meets the period it announced last
		a = append(a, with("CONNECT(keep-alive 10)", gw.Connect("c1", 10, false, false)))
		a = append(a, with("DISCONNECT(6) again", gw.Disconnect(6)), with("DISCONNECT(10) again", gw.Disconnect(10)))
		// broker-bound traffic of the sleeping client itself (forwarded by the gateway) must not make the pinger skip
		a = append(a, with("PUBLISH(q0,xy) while asleep", gw.Publish(2, gw.ShortID("xy"), 0, 0, false, false, "x")))
	}
	return a
}

func c12specs() []gw.Spec {
	max := 16
	if explore.Tier() == "thorough" {
		max = 28
	}
	cfg := gw.DefaultConfig()
	cfg.AutoBroker = func(p refmqtt.Pkt) [][]byte {
		switch p.Type {
		case refmqtt.CONNECT:
			return [][]byte{refmqtt.EncConnack(0)}
		case refmqtt.PINGREQ:
			return [][]byte{refmqtt.EncPingresp()}
		}
		return nil
	}
	return []gw.Spec{{Name: "K=4", Cfg: cfg, NoSettle: true, Setup: []string{gw.EvC("CONNECT(c1,4)", gw.Connect("c1", c12K, false, true))}, NewMonitor: func() gw.Monitor {
		return &c12mon{maxTicks: max}
	}}}
}

func TestC12(t *testing.T) {
	specs := c12specs()
	if explore.IsWorker() {
		gw.ServeBFS(t, specs)
		return
	}
	rep := explore.NewReport("C12", "model_checking")
	gw.BFSCheck(rep, specs, gw.BFSOpts{Test: "TestC12"}, 240, 1500)
	rep.Coverage["rule"] = "BFS over timed histories on a 1 s grid (horizon 16 s, thorough 28 s; keep-alive 4 s): at every tick the client does nothing, sends PINGREQ, PUBLISH q0, DISCONNECT(2|6|10), a wake-up PINGREQ, a wake-up CONNECT (same keep-alive, or announcing 10 s, which then is the client's obligation while active) a renewed DISCONNECT(6|10) or, while asleep, a QoS 0 PUBLISH of its own; the broker answers CONNECT and PINGREQ at once; histories in which the client breaks its own obligation (a packet within every keep-alive while active, a wake-up within every announced sleep duration) are pruned; at every tick and at every broker-bound packet the time since the previous broker-bound packet must be <= 6 s; state key uses time offsets, not absolute time"
	rep.Assumptions = []string{"default schedule; virtual time on a 1 s grid; after a wake-up the client sleeps again for the duration it announced"}
	rep.Finish()
}
