package gwc

import (
	"fmt"
	"strings"
	"testing"
	"time"

	"github.com/energomonitor/bisquitt/topics"

	"verif/mc/explore"
	"verif/mc/harness/gw"
	"verif/mc/ref/refmqtt"
	"verif/mc/ref/refsn"
)

// ---- C11: sleeping clients get their traffic buffered and delivered on wake -------

// what the gateway owes the sleeping client, in order (reference model of
// "every packet it would have sent")
type owed struct {
	kind string // PUBLISH REGISTER PUBREL PUBACK
	desc string // canonical content
}

type c11mon struct {
	view       string // the client's own view: active asleep awake gone
	owe        []owed
	reg        map[string]uint16 // names registered before sleeping -> id
	cycles     int
	depth      int
	maxDepth   int
	timers     int
	brokerEvs  int
	awaitRel   map[uint16]bool   // broker QoS2 exchanges in which the client has sent PUBREC
	gotQ2      map[uint16]bool   // QoS 2 PUBLISHes the client has received
	gotQ1      map[uint16]uint16 // QoS 1 PUBLISHes received and not yet acknowledged: msg id -> topic id
	gotReg     map[uint16]uint16 // REGISTERs received and not yet acknowledged
	gotRegName map[uint16]string
	regPub     map[string][][]string // broker publishes waiting for a registration, by topic name
	usedB      map[uint16]bool       // packet ids the broker has used (a conforming broker does not reuse an id in flight)
	pings      int                   // MQTT PINGREQs of the sleep pinger the broker has not answered yet
	ended      bool
}

func pubDesc(tit uint8, tid uint16, qos uint8, retain bool, payload string) string {
	return fmt.Sprintf("tit=%d tid=%d q%d r=%t %q", tit, tid, qos, retain, payload)
}

func (m *c11mon) After(g *gw.GW, ev string, sn []gw.SNOut, mq []gw.MQOut, setup bool) []explore.Violation {
	var vs []explore.Violation
	add := func(sig, f string, a ...any) {
		vs = append(vs, explore.Violation{Sig: sig, Detail: fmt.Sprintf(f, a...) + " (event " + gw.Label(ev) + ")"})
	}
	if !setup {
		m.depth++
	}
	st := steps(ev)[0]
	viewBefore := m.view
	wake := false
	// every MQTT PINGREQ (forwarded keep-alive, wake-up, sleep pinger) the broker has still to answer
	for _, o := range mq {
		if o.P.Type == refmqtt.PINGREQ {
			m.pings++
		}
	}
	if st.kind == "B" && st.mq.Type == refmqtt.PINGRESP {
		m.pings--
	}
	switch {
	case st.kind == "C" && st.sn.Type == refsn.DISCONNECT && st.sn.Duration > 0:
		// the gateway's DISCONNECT reply is the last datagram before the client sleeps
		if n := len(sn); n != 1 || sn[0].Err != nil || sn[0].P.Type != refsn.DISCONNECT {
			if viewBefore == "active" {
				add("sleep-request-not-confirmed", "DISCONNECT(%d) from an active client answered with %v", st.sn.Duration, sn)
			}
		}
		if viewBefore == "asleep" {
			// a new DISCONNECT while asleep: the client is awake only to send it; its reply is allowed
		}
		m.view = "asleep"
		if viewBefore == "active" {
			m.owe = nil
		}
		m.cycles++
		m.ended = g.Returned
		return vs
	case st.kind == "C" && st.sn.Type == refsn.PINGREQ && viewBefore == "asleep":
		wake = true
		m.view = "awake"
	case st.kind == "C" && st.sn.Type == refsn.CONNECT && (viewBefore == "asleep" || viewBefore == "awake"):
		m.view = "active"
		m.owe = nil // what happens to buffered packets on CONNECT is not stated by the property
		m.ended = g.Returned
		return vs
	case st.kind == "C" && st.sn.Type == refsn.DISCONNECT && st.sn.Duration == 0:
		// "treated as asleep again until it sends CONNECT or DISCONNECT": the reply to a sleeping client's plain
		// DISCONNECT goes out at once, it is not queued for a wake-up that will never come
		if m.view == "asleep" {
			n := 0
			for _, o := range sn {
				if o.Err == nil && o.P.Type == refsn.DISCONNECT {
					n++
				}
			}
			if n != 1 {
				add("disconnect-of-sleeping-client-not-answered", "DISCONNECT(0) from a sleeping client answered with %v (buffer %v)", sn, g.H.VBuffered())
			}
		}
		m.view = "gone"
		m.ended = g.Returned
		return vs
	}
	// reference: what an event makes the gateway owe the client
	if st.kind == "B" {
		q := st.mq
		switch q.Type {
		case refmqtt.PUBLISH:
			if q.QoS > 0 {
				m.usedB[q.ID] = true
			}
			if len(q.Topic) == 2 {
				m.owe = append(m.owe, owed{"PUBLISH", pubDesc(2, gw.ShortID(q.Topic), q.QoS, q.Retain, string(q.Payload))})
			} else if id, ok := m.reg[q.Topic]; ok {
				m.owe = append(m.owe, owed{"PUBLISH", pubDesc(0, id, q.QoS, q.Retain, string(q.Payload))})
			} else {
				m.owe = append(m.owe, owed{"REGISTER", q.Topic})
				m.regPub[q.Topic] = append(m.regPub[q.Topic], []string{fmt.Sprint(q.QoS), fmt.Sprint(q.Retain), string(q.Payload)})
			}
		case refmqtt.PUBREL:
			if m.awaitRel[q.ID] {
				m.owe = append(m.owe, owed{"PUBREL", fmt.Sprint(q.ID)})
				delete(m.awaitRel, q.ID)
			}
		}
	}
	if st.kind == "C" && st.sn.Type == refsn.PUBREC && m.gotQ2[st.sn.MsgID] {
		m.awaitRel[st.sn.MsgID] = true
		delete(m.gotQ2, st.sn.MsgID)
	}
	if st.kind == "T" {
		m.timers++
		// the gateway's own retry budget towards the *broker* (PUBREC waiting for PUBREL) can run out on a timer:
		// a PUBREL arriving after that is not owed to the client any more (the budget itself is C19's subject)
		for id := range m.awaitRel {
			alive := false
			for _, tx := range g.H.VTransactions() {
				if strings.HasPrefix(tx, fmt.Sprintf("brokerid%d=", id)) {
					alive = true
				}
			}
			if !alive {
				delete(m.awaitRel, id)
			}
		}
	}
	for _, o := range sn {
		if o.Err != nil {
			continue
		}
		switch {
		case o.P.Type == refsn.PUBLISH && o.P.QoS == 2:
			m.gotQ2[o.P.MsgID] = true
		case o.P.Type == refsn.PUBLISH && o.P.QoS == 1:
			m.gotQ1[o.P.MsgID] = o.P.TopicID
		case o.P.Type == refsn.REGISTER:
			m.gotReg[o.P.MsgID] = o.P.TopicID
			m.gotRegName[o.P.MsgID] = o.P.Str
		}
	}
	if st.kind == "C" {
		switch st.sn.Type {
		case refsn.PUBACK:
			delete(m.gotQ1, st.sn.MsgID)
		case refsn.REGACK:
			// the client accepted a REGISTER: the gateway now owes the PUBLISH that caused it
			if name, ok := m.gotRegName[st.sn.MsgID]; ok && st.sn.RC == 0 {
				tid := m.gotReg[st.sn.MsgID]
				m.reg[name] = tid
				if l := m.regPub[name]; len(l) > 0 {
					p := l[0]
					m.regPub[name] = l[1:]
					if viewBefore != "active" {
						m.owe = append(m.owe, owed{"PUBLISH", fmt.Sprintf("tit=0 tid=%d q%s r=%s %q", tid, p[0], p[1], p[2])})
					}
				}
			}
			delete(m.gotReg, st.sn.MsgID)
			delete(m.gotRegName, st.sn.MsgID)
		}
	}
	if viewBefore == "active" || viewBefore == "gone" {
		m.owe = nil
		m.ended = g.Returned
		return vs
	}
	if !wake {
		// asleep (or awake after the PINGRESP): nothing may be sent
		for _, o := range sn {
			add("datagram-sent-to-sleeping-client:"+typeName(o)+":on="+evKind(st), "client is asleep (cycle %d) but the gateway sent %v", m.cycles, o)
		}
		m.ended = g.Returned
		return vs
	}
	// wake-up: owed packets once, in order, then PINGRESP
	var got []owed
	sawResp := false
	for i, o := range sn {
		if o.Err != nil {
			add("undecodable-datagram", "%x", o.Raw)
			continue
		}
		p := o.P
		if sawResp {
			add("datagram-after-pingresp:"+p.Name(), "%v sent after PINGRESP", p)
			continue
		}
		switch p.Type {
		case refsn.PINGRESP:
			sawResp = true
			if i != len(sn)-1 {
				continue
			}
		case refsn.PUBLISH:
			got = append(got, owed{"PUBLISH", pubDesc(p.TIT, p.TopicID, p.QoS, p.Retain, string(p.Data))})
		case refsn.REGISTER:
			got = append(got, owed{"REGISTER", p.Str})
		case refsn.PUBREL:
			got = append(got, owed{"PUBREL", fmt.Sprint(p.MsgID)})
		default:
			got = append(got, owed{p.Name(), ""})
		}
	}
	if !sawResp && !g.Returned {
		add("no-pingresp-after-wake", "PINGREQ of a sleeping client answered with %v", sn)
	}
	if fmt.Sprint(got) != fmt.Sprint(m.owe) {
		// classify: duplicates of owed packets, packets not owed at all, missing ones, order
		cnt := map[owed]int{}
		for _, o := range m.owe {
			cnt[o]++
		}
		sig := ""
		for _, o := range got {
			cnt[o]--
		}
		owedKinds := map[owed]bool{}
		for _, o := range m.owe {
			owedKinds[o] = true
		}
		for o, c := range cnt {
			switch {
			case c < 0 && owedKinds[o]:
				sig = "duplicate:" + o.kind
			case c < 0 && sig == "":
				sig = "not-owed:" + o.kind
			case c > 0 && sig == "":
				sig = "missing:" + o.kind
			}
		}
		if sig == "" {
			sig = "reordered"
		}
		add("wake-delivery-differs:"+sig, "on wake-up the client got %v, the gateway owed %v", got, m.owe)
	}
	m.owe = nil
	m.view = "asleep" // after the PINGRESP the client sleeps again
	m.ended = g.Returned
	return vs
}

func typeName(o gw.SNOut) string {
	if o.Err != nil {
		return "UNDECODABLE"
	}
	return o.P.Name()
}

func evKind(st step) string {
	switch st.kind {
	case "B":
		return "broker-" + st.mq.Name()
	case "C":
		return "client-" + st.sn.Name()
	case "T":
		return "timer"
	}
	return st.kind
}

func (m *c11mon) Key() string {
	return fmt.Sprintf("view=%s owe=%v cyc=%d d=%d t=%d b=%d rel=%v q2=%v q1=%v reg=%v rp=%v names=%v used=%v pings=%d", m.view, m.owe, m.cycles, m.depth, m.timers, m.brokerEvs, m.awaitRel, m.gotQ2, m.gotQ1, m.gotReg, m.regPub, m.reg, m.usedB, m.pings)
}
func (m *c11mon) Class() string {
	return fmt.Sprintf("%s/cycle%d/owed%d", m.view, m.cycles, len(m.owe))
}

func (m *c11mon) Next(g *gw.GW) []string {
	if g.Returned || g.H.VEnding() || m.view == "gone" || m.depth >= m.maxDepth {
		return nil
	}
	var a []string
	broker := []string{
		gw.EvB("broker PUBLISH(r/1,q0)", refmqtt.EncPublish("r/1", 0, false, false, 0, []byte("a"))),
		gw.EvB("broker PUBLISH(r/1,q1)", refmqtt.EncPublish("r/1", 1, false, false, 11, []byte("b"))),
		gw.EvB("broker PUBLISH(xy,q2)", refmqtt.EncPublish("xy", 2, false, true, 12, []byte("c"))),
		gw.EvB("broker PUBLISH(w/new,q1)", refmqtt.EncPublish("w/new", 1, false, false, 13, []byte("d"))),
	}
	switch m.view {
	case "active":
		a = append(a, gw.EvC("DISCONNECT(3)", gw.Disconnect(3)), gw.EvC("DISCONNECT(30)", gw.Disconnect(30)))
		if m.cycles > 0 && !m.usedB[11] {
			a = append(a, broker[1])
		}
		if m.pings == 0 {
			// a keep-alive PINGREQ just before falling asleep: the broker's answer can arrive when the client sleeps
			a = append(a, gw.EvC("PINGREQ(keep-alive)", gw.Pingreq("")))
		}
	case "asleep":
		for _, b := range broker {
			if p, ok := brokerPkt(b); ok && p.QoS > 0 && m.usedB[p.ID] {
				continue
			}
			a = append(a, b)
		}
		a = append(a, gw.EvC("PINGREQ(wake)", gw.Pingreq("c1")), gw.EvC("CONNECT", gw.Connect("c1", 10, false, false)),
			gw.EvC("DISCONNECT(30) again", gw.Disconnect(30)), gw.EvC("DISCONNECT(0)", gw.Disconnect(0)))
		if len(g.S.PendingTimers()) > 0 && m.timers < 4 {
			a = append(a, gw.EvTimer)
		}
		// answers to what was flushed at the last wake-up (sent just before sleeping again)
		for mid, tid := range m.gotQ1 {
			a = append(a, gw.EvC(fmt.Sprintf("PUBACK(mid %d)", mid), gw.Puback(tid, mid, 0)))
		}
		for mid := range m.gotQ2 {
			a = append(a, gw.EvC(fmt.Sprintf("PUBREC(mid %d)", mid), gw.Pubrec(mid)))
		}
		for mid, tid := range m.gotReg {
			a = append(a, gw.EvC(fmt.Sprintf("REGACK(mid %d)", mid), gw.Regack(tid, mid, 0)))
		}
		if m.pings > 0 {
			a = append(a, gw.EvB("broker PINGRESP", refmqtt.EncPingresp()))
		}
		for mid := range m.awaitRel {
			a = append(a, gw.EvB(fmt.Sprintf("broker PUBREL(%d)", mid), refmqtt.EncPubrel(mid)))
		}
		sortStrings(a)
	}
	return a
}

var _ = strings.HasSuffix

func c11specs() []gw.Spec {
	depth := 7
	if explore.Tier() == "thorough" {
		depth = 9
	}
	cfg := gw.DefaultConfig()
	cfg.RetryDelay, cfg.RetryCount = 2*time.Second, 2
	cfg.Predefined = topics.PredefinedTopics{}
	setup := append(connectSetup("c1", 10),
		gw.Ev("SUBSCRIBE w/# + SUBACK", gw.EvC("", gw.SubscribeName(9, "w/#", 1, false)), gw.EvB("", refmqtt.EncSuback(9, 1))),
		gw.EvC("REGISTER r/1", gw.Register(0, 7, "r/1")))
	return []gw.Spec{{Name: "sleep", Cfg: cfg, Setup: setup, NoSettle: false, NewMonitor: func() gw.Monitor {
		return &c11mon{view: "active", reg: map[string]uint16{"r/1": 1}, awaitRel: map[uint16]bool{}, gotQ2: map[uint16]bool{}, gotQ1: map[uint16]uint16{}, gotReg: map[uint16]uint16{}, gotRegName: map[uint16]string{}, regPub: map[string][][]string{}, usedB: map[uint16]bool{}, maxDepth: depth}
	}}}
}

// E2: a broker PUBLISH races with the wake-up PINGREQ (and with going back to sleep).
func c11e2() []gw.E2Spec {
	cfg := gw.DefaultConfig()
	cfg.RetryDelay, cfg.RetryCount = 2*time.Second, 2
	base := append(connectSetup("c1", 10), gw.EvC("REGISTER r/1", gw.Register(0, 7, "r/1")), gw.EvC("DISCONNECT(3)", gw.Disconnect(3)))
	one := append(append([]string{}, base...), gw.EvB("broker PUBLISH(r/1,q0,a)", refmqtt.EncPublish("r/1", 0, false, false, 0, []byte("a"))))
	two := append(append([]string{}, one...), gw.EvB("broker PUBLISH(r/1,q1,c)", refmqtt.EncPublish("r/1", 1, false, false, 21, []byte("c"))))
	then := []string{gw.EvAdvance(time.Millisecond), gw.EvC("PINGREQ(wake 2)", gw.Pingreq("c1"))}
	check := func(want []string) func(g *gw.GW, sn []gw.SNOut, mq []gw.MQOut) []explore.Violation {
		return func(g *gw.GW, sn []gw.SNOut, mq []gw.MQOut) []explore.Violation {
			var vs []explore.Violation
			add := func(sig, f string, a ...any) {
				vs = append(vs, explore.Violation{Property: "C11", Sig: "e2:" + sig, Detail: fmt.Sprintf(f, a...)})
			}
			var all []string
			var seq []string
			phase := [2][]string{}
			for _, o := range sn {
				if o.Err != nil {
					add("undecodable-datagram", "%x", o.Raw)
					continue
				}
				ph := 0
				if o.At > 0 && o.At >= g.AllSN[len(g.AllSN)-1].At && o.At != sn[0].At {
					ph = 1
				}
				name := o.P.Name()
				if o.P.Type == refsn.PUBLISH {
					name = "PUBLISH:" + string(o.P.Data)
					seq = append(seq, string(o.P.Data))
				}
				phase[ph] = append(phase[ph], name)
				all = append(all, name)
			}
			for ph, l := range phase {
				n := 0
				for i, x := range l {
					if x == "PINGRESP" {
						n++
						if i != len(l)-1 {
							add("datagram-after-pingresp", "wake-up %d: %v: datagrams follow the PINGRESP although the client sleeps again", ph+1, l)
						}
					}
				}
				if n != 1 {
					add("pingresp-count", "wake-up %d answered with %v (want the owed packets, then exactly one PINGRESP)", ph+1, l)
				}
			}
			if fmt.Sprint(seq) != fmt.Sprint(want) {
				sig := "publish-lost"
				if len(seq) > len(want) {
					sig = "publish-duplicated"
				} else if len(seq) == len(want) {
					sig = "publish-reordered"
				}
				add(sig, "over two wake-ups the client got payloads %v, want %v exactly once each in this order (all datagrams: %v)", seq, want, all)
			}
			return vs
		}
	}
	return []gw.E2Spec{
		{Name: "e2:wake|broker PUBLISH (1 buffered)", Cfg: cfg, Setup: one, Then: then,
			Inject: []string{gw.EvC("PINGREQ(wake)", gw.Pingreq("c1")), gw.EvB("broker PUBLISH(r/1,q0,b)", refmqtt.EncPublish("r/1", 0, false, false, 0, []byte("b")))},
			Check:  check([]string{"a", "b"})},
		{Name: "e2:wake|broker PUBLISH (2 buffered)", Cfg: cfg, Setup: two, Then: then,
			Inject: []string{gw.EvC("PINGREQ(wake)", gw.Pingreq("c1")), gw.EvB("broker PUBLISH(r/1,q0,b)", refmqtt.EncPublish("r/1", 0, false, false, 0, []byte("b")))},
			Check:  check([]string{"a", "c", "b"})},
		{Name: "e2:wake|broker PUBLISH (nothing buffered)", Cfg: cfg, Setup: base, Then: then,
			Inject: []string{gw.EvC("PINGREQ(wake)", gw.Pingreq("c1")), gw.EvB("broker PUBLISH(r/1,q0,b)", refmqtt.EncPublish("r/1", 0, false, false, 0, []byte("b")))},
			Check:  check([]string{"b"})},
		{Name: "e2:sleep-request|broker PUBLISH", Cfg: cfg, Setup: append(connectSetup("c1", 10), gw.EvC("REGISTER r/1", gw.Register(0, 7, "r/1"))),
			Then:   []string{gw.EvAdvance(time.Millisecond), gw.EvC("PINGREQ(wake)", gw.Pingreq("c1"))},
			Inject: []string{gw.EvC("DISCONNECT(3)", gw.Disconnect(3)), gw.EvB("broker PUBLISH(r/1,q0,b)", refmqtt.EncPublish("r/1", 0, false, false, 0, []byte("b")))},
			Check: func(g *gw.GW, sn []gw.SNOut, mq []gw.MQOut) []explore.Violation {
				// b either reaches the client before the DISCONNECT reply (still active) or is buffered until the wake-up
				n, after := 0, false
				seenDisc := false
				var all []string
				for _, o := range sn {
					if o.Err != nil {
						continue
					}
					all = append(all, o.P.Name())
					if o.P.Type == refsn.DISCONNECT {
						seenDisc = true
					}
					if o.P.Type == refsn.PUBLISH {
						n++
						if seenDisc && o.At == 0 {
							after = true
						}
					}
				}
				var vs []explore.Violation
				if n != 1 {
					vs = append(vs, explore.Violation{Property: "C11", Sig: fmt.Sprintf("e2:sleep-request-race:publish-count=%d", n), Detail: fmt.Sprintf("PUBLISH racing with DISCONNECT(3) delivered %d times: %v", n, all)})
				}
				if after {
					vs = append(vs, explore.Violation{Property: "C11", Sig: "e2:sleep-request-race:sent-after-disconnect-reply", Detail: fmt.Sprintf("PUBLISH sent after the DISCONNECT reply while the client sleeps: %v", all)})
				}
				return vs
			}},
	}
}

func TestC11(t *testing.T) {
	specs := c11specs()
	if explore.IsWorker() {
		gw.ServeAll(t, specs, c11e2())
		return
	}
	rep := explore.NewReport("C11", "model_checking")
	gw.BFSCheck(rep, specs, gw.BFSOpts{Test: "TestC11"}, 240, 1500)
	rep.Coverage["rule"] = "BFS (depth 6, thorough 8) over sleep/wake cycles of one real session: DISCONNECT(3|30), broker PUBLISH (registered q0/q1, short q2 retained, new topic under a wildcard q1), broker PUBREL, retry/pinger timers, PINGREQ wake-ups, the client's acknowledgements of flushed packets, CONNECT, repeated DISCONNECT(d), DISCONNECT(0); the monitor is the client's own sleep view (asleep from the gateway's DISCONNECT reply until it sends PINGREQ, asleep again after PINGRESP) with a reference list of what the gateway owes it"
	explore.RunScenarios(rep, gw.Scenarios(t, c11e2()), explore.ScenarioOpts{Test: "TestC11", QuickBound: 2, ThoroughFrom: 2, ThoroughMax: 4,
		QuickBudget: 90 * time.Second, ThoroughBudge: 8 * time.Minute})
	rep.Assumptions = []string{"BFS part: default schedule; E2 part: the PINGREQ/PUBLISH and DISCONNECT/PUBLISH races under all interleavings within the preemption bound, scheduling points at the state atomic, conn writes and every access to the packet buffer", "retransmissions are not owed to a sleeping client: every packet it would have sent is delivered once"}
	rep.Finish()
}
