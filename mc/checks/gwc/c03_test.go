package gwc

import (
	"fmt"
	"strings"
	"testing"
	"time"

	"github.com/energomonitor/bisquitt/topics"

	"verif/mc/explore"
	"verif/mc/harness/gw"
	"verif/mc/ref/refmqtt"
	"verif/mc/ref/refsn"
)

// ---- C03: control packets are translated one-to-one --------------------------------

type pendSub struct {
	filter string
	qos    uint8
	kind   string // plain wildcard short predefined
	tid    uint16 // predefined id
}

type c03mon struct {
	cfg      topics.PredefinedTopics
	subs     map[uint16]pendSub // SUBSCRIBEs forwarded and not yet acknowledged, by msg id
	depth    int
	ended    bool
	alphabet []string
	// sleep cycles: the gateway pings the broker on its own while the client sleeps; the answers to its own
	// pings are its own, every other PINGRESP of the broker belongs to an active client
	asleep bool
	own    int // the gateway's own PINGREQs not yet answered by the broker
}

func (m *c03mon) resolve(p refsn.Pkt) (string, string, bool) {
	switch p.TIT {
	case 0:
		if strings.ContainsAny(p.Str, "+#") {
			return p.Str, "wildcard", true
		}
		return p.Str, "plain", true
	case 1:
		n, ok := refPredef(m.cfg, "c1", p.TopicID)
		return n, "predefined", ok
	case 2:
		return string([]byte{byte(p.TopicID >> 8), byte(p.TopicID)}), "short", true
	}
	return "", "", false
}

func (m *c03mon) After(g *gw.GW, ev string, sn []gw.SNOut, mq []gw.MQOut, setup bool) []explore.Violation {
	var vs []explore.Violation
	if setup {
		return nil
	}
	m.depth++
	add := func(sig, f string, a ...any) {
		vs = append(vs, explore.Violation{Sig: sig, Detail: fmt.Sprintf(f, a...) + " (event " + gw.Label(ev) + ")"})
	}
	var snOK []refsn.Pkt
	for _, o := range sn {
		if o.Err != nil {
			add("undecodable-datagram", "gateway sent %x", o.Raw)
			continue
		}
		snOK = append(snOK, o.P)
	}
	st := steps(ev)[0]
	clientPing := st.kind == "C" && st.sn.Type == refsn.PINGREQ && !m.asleep
	if !clientPing {
		for _, o := range mq {
			if o.P.Type == refmqtt.PINGREQ {
				m.own++
			}
		}
	}
	expectMQ := func(want string, check func(p refmqtt.Pkt) string) {
		if len(mq) != 1 {
			var names []string
			for _, o := range mq {
				names = append(names, o.P.String())
			}
			add(want+":not-exactly-one-mqtt-packet", "expected exactly one MQTT %s, broker got %v", want, names)
			return
		}
		if why := check(mq[0].P); why != "" {
			add(want+":"+why, "translated to %v", mq[0].P)
		}
	}
	expectSN := func(want byte, mid uint16) {
		if len(snOK) != 1 || snOK[0].Type != want || snOK[0].MsgID != mid {
			add(refsn.Names[want]+":not-translated", "expected exactly one %s with msg id %d, client got %v", refsn.Names[want], mid, snOK)
		}
	}
	switch st.kind {
	case "C":
		p := st.sn
		switch p.Type {
		case refsn.SUBSCRIBE:
			filter, kind, ok := m.resolve(p)
			if !ok {
				if len(mq) != 0 {
					add("SUBSCRIBE:unresolvable-forwarded", "SUBSCRIBE to an unknown predefined id forwarded as %v", mq[0].P)
				}
				break
			}
			if kind == "plain" && len(mq) == 0 && len(snOK) == 1 && snOK[0].Type == refsn.SUBACK && snOK[0].RC != 0 {
				break // topic ids exhausted: refused (C04's subject)
			}
			expectMQ("SUBSCRIBE", func(q refmqtt.Pkt) string {
				switch {
				case q.Type != refmqtt.SUBSCRIBE:
					return "wrong-type"
				case q.ID != p.MsgID:
					return "msgid"
				case len(q.Filters) != 1 || q.Filters[0] != filter:
					return "filter"
				case q.QoSs[0] != p.QoS:
					return "requested-qos"
				}
				return ""
			})
			m.subs[p.MsgID] = pendSub{filter: filter, qos: p.QoS, kind: kind, tid: p.TopicID}
		case refsn.UNSUBSCRIBE:
			filter, _, ok := m.resolve(p)
			if !ok {
				if len(mq) != 0 {
					add("UNSUBSCRIBE:unresolvable-forwarded", "UNSUBSCRIBE of an unknown predefined id forwarded as %v", mq[0].P)
				}
				break
			}
			expectMQ("UNSUBSCRIBE", func(q refmqtt.Pkt) string {
				switch {
				case q.Type != refmqtt.UNSUBSCRIBE:
					return "wrong-type"
				case q.ID != p.MsgID:
					return "msgid"
				case len(q.Filters) != 1 || q.Filters[0] != filter:
					return "filter"
				}
				return ""
			})
		case refsn.PUBREL:
			expectMQ("PUBREL", func(q refmqtt.Pkt) string {
				if q.Type != refmqtt.PUBREL || q.ID != p.MsgID {
					return "differs"
				}
				return ""
			})
		case refsn.PINGREQ:
			if m.asleep {
				break // a wake-up: answered by the gateway itself (C11)
			}
			expectMQ("PINGREQ", func(q refmqtt.Pkt) string {
				if q.Type != refmqtt.PINGREQ {
					return "differs"
				}
				return ""
			})
		case refsn.DISCONNECT:
			if p.Duration > 0 {
				m.asleep = true // going to sleep (or prolonging it): nothing is translated
				break
			}
			expectMQ("DISCONNECT", func(q refmqtt.Pkt) string {
				if q.Type != refmqtt.DISCONNECT {
					return "differs"
				}
				return ""
			})
		case refsn.CONNECT:
			m.asleep = false // a wake-up CONNECT (the specs with sleep cycles connect once in their setup)
		}
	case "B":
		q := st.mq
		switch q.Type {
		case refmqtt.PUBREC:
			expectSN(refsn.PUBREC, q.ID)
		case refmqtt.PUBCOMP:
			expectSN(refsn.PUBCOMP, q.ID)
		case refmqtt.UNSUBACK:
			expectSN(refsn.UNSUBACK, q.ID)
		case refmqtt.PINGRESP:
			switch {
			case m.own > 0:
				m.own-- // the answer to one of the gateway's own pings (the oldest outstanding ping is the gateway's)
			case !m.asleep:
				expectSN(refsn.PINGRESP, 0)
			}
		case refmqtt.SUBACK:
			ps, pending := m.subs[q.ID]
			if !pending {
				break // no SUBSCRIBE with this id in progress: nothing is demanded
			}
			delete(m.subs, q.ID)
			if len(snOK) != 1 || snOK[0].Type != refsn.SUBACK || snOK[0].MsgID != q.ID {
				add("SUBACK:not-translated", "expected exactly one SUBACK with msg id %d, client got %v", q.ID, snOK)
				break
			}
			a := snOK[0]
			rc := q.RCs[0]
			if (rc <= 2) != (a.RC == 0) {
				add(fmt.Sprintf("SUBACK:accepted-mismatch:broker-rc=%#x", rc), "broker return code %#x translated to SUBACK return code %d", rc, a.RC)
				break
			}
			if rc > 2 {
				break
			}
			if a.QoS != rc {
				add("SUBACK:granted-qos", "broker granted QoS %d, SUBACK carries QoS %d", rc, a.QoS)
			}
			switch ps.kind {
			case "wildcard", "short":
				if a.TopicID != 0 {
					add("SUBACK:topic-id:"+ps.kind, "SUBACK for a %s subscription carries topic id %d, want 0", ps.kind, a.TopicID)
				}
			case "predefined":
				if a.TopicID != ps.tid {
					add("SUBACK:topic-id:predefined", "SUBACK carries topic id %d, want the predefined id %d", a.TopicID, ps.tid)
				}
			case "plain":
				if name, ok := g.H.VRegistered()[a.TopicID]; a.TopicID == 0 || !ok || name != ps.filter {
					add("SUBACK:topic-id:plain", "SUBACK for %q carries topic id %d which the gateway maps to %q", ps.filter, a.TopicID, name)
				}
			}
		}
	}
	m.ended = g.Returned
	return vs
}

func (m *c03mon) Key() string {
	var ks []string
	for id, s := range m.subs {
		ks = append(ks, fmt.Sprintf("%d:%v", id, s))
	}
	sortStrings(ks)
	return fmt.Sprintf("subs=%v ended=%t asleep=%t own=%d", ks, m.ended, m.asleep, m.own)
}
func (m *c03mon) Class() string {
	return fmt.Sprintf("pending=%d ended=%t asleep=%t", len(m.subs), m.ended, m.asleep)
}
func (m *c03mon) Next(g *gw.GW) []string {
	if g.Returned {
		return nil
	}
	return m.alphabet
}

func c03alphabet(thorough bool) []string {
	var a []string
	mids := []uint16{1, 2}
	qoss := []uint8{0, 1, 2}
	dups := []bool{false}
	if thorough {
		dups = []bool{false, true}
	}
	for _, mid := range mids {
		for _, q := range qoss {
			for _, d := range dups {
				tag := fmt.Sprintf("q%d,mid%d,dup=%t", q, mid, d)
				for _, name := range []string{"a/b", "a/#", "a/+/c"} {
					a = append(a, gw.EvC("SUBSCRIBE("+name+","+tag+")", gw.SubscribeName(mid, name, q, d)))
				}
				a = append(a, gw.EvC("SUBSCRIBE(predef 1,"+tag+")", gw.SubscribeID(mid, 1, 1, q, d)))
				a = append(a, gw.EvC("SUBSCRIBE(short xy,"+tag+")", gw.SubscribeID(mid, 2, gw.ShortID("xy"), q, d)))
			}
		}
		a = append(a, gw.EvC(fmt.Sprintf("SUBSCRIBE(predef 9 unknown,mid%d)", mid), gw.SubscribeID(mid, 1, 9, 1, false)))
		for _, rc := range []byte{0, 1, 2, 0x80} {
			a = append(a, gw.EvB(fmt.Sprintf("SUBACK(mid%d,rc=%#x)", mid, rc), refmqtt.EncSuback(mid, rc)))
		}
		a = append(a,
			gw.EvC(fmt.Sprintf("UNSUBSCRIBE(a/b,mid%d)", mid), gw.UnsubscribeName(mid, "a/b")),
			gw.EvC(fmt.Sprintf("UNSUBSCRIBE(a/#,mid%d)", mid), gw.UnsubscribeName(mid, "a/#")),
			gw.EvC(fmt.Sprintf("UNSUBSCRIBE(predef 1,mid%d)", mid), gw.UnsubscribeID(mid, 1, 1)),
			gw.EvC(fmt.Sprintf("UNSUBSCRIBE(predef 9 unknown,mid%d)", mid), gw.UnsubscribeID(mid, 1, 9)),
			gw.EvC(fmt.Sprintf("UNSUBSCRIBE(short xy,mid%d)", mid), gw.UnsubscribeID(mid, 2, gw.ShortID("xy"))),
			gw.EvC(fmt.Sprintf("PUBREL(mid%d)", mid), gw.Pubrel(mid)),
			gw.EvB(fmt.Sprintf("PUBREC(mid%d)", mid), refmqtt.EncPubrec(mid)),
			gw.EvB(fmt.Sprintf("PUBCOMP(mid%d)", mid), refmqtt.EncPubcomp(mid)),
			gw.EvB(fmt.Sprintf("UNSUBACK(mid%d)", mid), refmqtt.EncUnsuback(mid)),
		)
	}
	a = append(a,
		gw.EvC("PINGREQ", gw.Pingreq("")),
		gw.EvC("DISCONNECT(0)", gw.Disconnect(0)),
		gw.EvB("PINGRESP", refmqtt.EncPingresp()),
	)
	return a
}

func c03specs() []gw.Spec {
	cfg := gw.DefaultConfig()
	cfg.Predefined = topics.PredefinedTopics{"*": {1: "p/1"}}
	alpha := c03alphabet(explore.Tier() == "thorough")
	// sleep cycles: the broker's answers to the gateway's own pings (sent while the client sleeps) must not eat
	// the answers to the client's pings once it is active again, and vice versa
	sleepAlpha := []string{
		gw.EvC("DISCONNECT(60)", gw.Disconnect(60)),
		gw.EvC("PINGREQ(wake)", gw.Pingreq("c1")),
		gw.EvC("CONNECT(wake)", gw.Connect("c1", 4, false, false)),
		gw.EvC("PINGREQ", gw.Pingreq("")),
		gw.EvB("PINGRESP", refmqtt.EncPingresp()),
		gw.EvAdvance(4 * time.Second),
	}
	return []gw.Spec{{Name: "c1", Cfg: cfg, Setup: connectSetup("c1", 30), NewMonitor: func() gw.Monitor {
		return &c03mon{cfg: cfg.Predefined, subs: map[uint16]pendSub{}, alphabet: alpha}
	}}, {Name: "client unreachable", Cfg: cfg, Setup: append(connectSetup("c1", 30), gw.EvUnreachable), Depth: 2, NewMonitor: func() gw.Monitor {
		// the reply to the client cannot be delivered: its plain DISCONNECT and its other requests are translated all the same
		return &c03mon{cfg: cfg.Predefined, subs: map[uint16]pendSub{}, alphabet: []string{
			gw.EvC("DISCONNECT(0)", gw.Disconnect(0)), gw.EvC("PINGREQ", gw.Pingreq("")),
			gw.EvC("SUBSCRIBE(a/b,q1,mid1)", gw.SubscribeName(1, "a/b", 1, false)), gw.EvC("PUBREL(mid1)", gw.Pubrel(1))}}
	}}, {Name: "filters with empty levels", Cfg: cfg, Setup: connectSetup("c1", 30), Depth: 2, NewMonitor: func() gw.Monitor {
		// MQTT allows empty topic levels: "/a", "a//b", "a/", "/" and their wildcard forms are filters like any other
		var a []string
		for _, f := range []string{"/a", "a//b", "a/", "/", "/#", "+/", "/+/x"} {
			a = append(a, gw.EvC("SUBSCRIBE("+f+",q1,mid1)", gw.SubscribeName(1, f, 1, false)), gw.EvC("UNSUBSCRIBE("+f+",mid1)", gw.UnsubscribeName(1, f)))
		}
		a = append(a, gw.EvB("SUBACK(mid1,rc=0x1)", refmqtt.EncSuback(1, 1)), gw.EvB("UNSUBACK(mid1)", refmqtt.EncUnsuback(1)))
		return &c03mon{cfg: cfg.Predefined, subs: map[uint16]pendSub{}, alphabet: a}
	}}, {Name: "sleep cycles", Cfg: cfg, Setup: connectSetup("c1", 4), Depth: 7, NewMonitor: func() gw.Monitor {
		return &c03mon{cfg: cfg.Predefined, subs: map[uint16]pendSub{}, alphabet: sleepAlpha}
	}}}
}

// E2: the broker answers the moment the gateway has written the request, so the
// answer can overtake the handler's own bookkeeping for that request.
func c03e2() []gw.E2Spec {
	cfg := gw.DefaultConfig()
	cfg.Predefined = topics.PredefinedTopics{"*": {1: "p/1"}}
	auto := func(p refmqtt.Pkt) [][]byte {
		switch p.Type {
		case refmqtt.SUBSCRIBE:
			return [][]byte{refmqtt.EncSuback(p.ID, p.QoSs[0])}
		case refmqtt.UNSUBSCRIBE:
			return [][]byte{refmqtt.EncUnsuback(p.ID)}
		case refmqtt.PUBREL:
			return [][]byte{refmqtt.EncPubcomp(p.ID)}
		case refmqtt.PINGREQ:
			return [][]byte{refmqtt.EncPingresp()}
		}
		return nil
	}
	mk := func(name string, in []byte, wantType byte, wantMid uint16, wantQoS uint8) gw.E2Spec {
		return gw.E2Spec{Name: "e2:prompt-broker:" + name, Cfg: cfg, Setup: connectSetup("c1", 30), Auto: auto,
			Inject: []string{gw.EvC(name, in)},
			Check: func(g *gw.GW, sn []gw.SNOut, mq []gw.MQOut) []explore.Violation {
				n := 0
				for _, o := range sn {
					if o.Err == nil && o.P.Type == wantType && o.P.MsgID == wantMid && (wantType != refsn.SUBACK || (o.P.RC == 0 && o.P.QoS == wantQoS)) {
						n++
					}
				}
				if n != 1 {
					var got []string
					for _, o := range sn {
						got = append(got, o.String())
					}
					return []explore.Violation{{Property: "C03", Sig: "prompt-broker-answer-not-translated:" + refsn.Names[wantType],
						Detail: fmt.Sprintf("%s answered immediately by the broker: client got %v, want exactly one %s(msg id %d)", name, got, refsn.Names[wantType], wantMid)}}
				}
				return nil
			}}
	}
	// the client reuses a message id as soon as it is acknowledged
	reuse := gw.E2Spec{Name: "e2:msgid-reuse:SUBSCRIBE,SUBSCRIBE", Cfg: cfg, Setup: connectSetup("c1", 30), Auto: auto,
		AutoClient: func(p refsn.Pkt, nth int) [][]byte {
			if p.Type == refsn.SUBACK && nth == 1 {
				return [][]byte{gw.SubscribeName(5, "c/d", 2, false)}
			}
			return nil
		},
		Inject: []string{gw.EvC("SUBSCRIBE(a/b,q1,mid5)", gw.SubscribeName(5, "a/b", 1, false))},
		Check: func(g *gw.GW, sn []gw.SNOut, mq []gw.MQOut) []explore.Violation {
			var got []string
			qos := map[uint8]int{}
			for _, o := range sn {
				got = append(got, o.String())
				if o.Err == nil && o.P.Type == refsn.SUBACK && o.P.MsgID == 5 && o.P.RC == 0 {
					qos[o.P.QoS]++
				}
			}
			if qos[1] != 1 || qos[2] != 1 {
				return []explore.Violation{{Property: "C03", Sig: "msgid-reuse:SUBACK-lost", Detail: fmt.Sprintf("SUBSCRIBE(mid 5) acknowledged, then SUBSCRIBE with the same msg id: client got %v, want one SUBACK per SUBSCRIBE (granted QoS 1 and 2)", got)}}
			}
			return nil
		}}
	// the client pipelines its requests: the handler works on the next one while the broker's answers to the
	// previous ones are being translated by the other thread
	pipeline := gw.E2Spec{Name: "e2:pipelined requests, prompt broker", Cfg: cfg, Setup: connectSetup("c1", 30), Auto: auto,
		Inject: []string{gw.EvC("SUBSCRIBE(a/b,q1,mid5)", gw.SubscribeName(5, "a/b", 1, false)), gw.EvC("UNSUBSCRIBE(a/b,mid8)", gw.UnsubscribeName(8, "a/b")),
			gw.EvC("PUBREL(mid9)", gw.Pubrel(9)), gw.EvC("PINGREQ", gw.Pingreq("")), gw.EvC("SUBSCRIBE(a/#,q2,mid6)", gw.SubscribeName(6, "a/#", 2, false))},
		Check: func(g *gw.GW, sn []gw.SNOut, mq []gw.MQOut) []explore.Violation {
			got := map[string]int{}
			var all []string
			for _, o := range sn {
				all = append(all, o.String())
				if o.Err == nil {
					k := fmt.Sprintf("%s(%d)", o.P.Name(), o.P.MsgID)
					if o.P.Type == refsn.SUBACK {
						k += fmt.Sprintf("rc%d,q%d", o.P.RC, o.P.QoS)
					}
					got[k]++
				}
			}
			var vs []explore.Violation
			for _, want := range []string{"SUBACK(5)rc0,q1", "UNSUBACK(8)", "PUBCOMP(9)", "PINGRESP(0)", "SUBACK(6)rc0,q2"} {
				if got[want] != 1 {
					vs = append(vs, explore.Violation{Property: "C03", Sig: "pipelined:" + want + fmt.Sprintf(":got=%d", got[want]),
						Detail: fmt.Sprintf("five pipelined requests, each answered at once by the broker: client got %v, want exactly one %s", all, want)})
				}
			}
			if len(sn) != 5 && len(vs) == 0 {
				vs = append(vs, explore.Violation{Property: "C03", Sig: "pipelined:extra-datagrams", Detail: fmt.Sprintf("client got %v, want the five answers only", all)})
			}
			return vs
		}}
	return []gw.E2Spec{
		reuse,
		pipeline,
		mk("SUBSCRIBE(a/b,q1)", gw.SubscribeName(5, "a/b", 1, false), refsn.SUBACK, 5, 1),
		mk("SUBSCRIBE(a/#,q2)", gw.SubscribeName(6, "a/#", 2, false), refsn.SUBACK, 6, 2),
		mk("SUBSCRIBE(predef 1,q0)", gw.SubscribeID(7, 1, 1, 0, false), refsn.SUBACK, 7, 0),
		mk("UNSUBSCRIBE(a/b)", gw.UnsubscribeName(8, "a/b"), refsn.UNSUBACK, 8, 0),
		mk("PUBREL", gw.Pubrel(9), refsn.PUBCOMP, 9, 0),
		mk("PINGREQ", gw.Pingreq(""), refsn.PINGRESP, 0, 0),
	}
}

func TestC03(t *testing.T) {
	specs := c03specs()
	if explore.IsWorker() {
		gw.ServeAll(t, specs, c03e2())
		return
	}
	rep := explore.NewReport("C03", "model_checking")
	depth := 3
	if explore.Tier() == "thorough" {
		depth = 4
	}
	gw.BFSCheck(rep, specs, gw.BFSOpts{Test: "TestC03", Depth: depth}, 150, 900)
	rep.Coverage["rule"] = "BFS over histories of SUBSCRIBE{plain,wildcard x2,predefined known/unknown,short} x QoS{0,1,2} x msg id{1,2} (thorough also DUP), broker SUBACK rc{0,1,2,0x80} x msg id{1,2}, UNSUBSCRIBE (same topic forms), PUBREL, PINGREQ, DISCONNECT, broker PUBREC/PUBCOMP/UNSUBACK/PINGRESP after a connect; plus histories up to depth 7 of sleep cycles (DISCONNECT(60), wake-up PINGREQ, wake-up CONNECT, keep-alive PINGREQ, broker PINGRESP, 4 s passing = one period of the gateway's own pings): the answers to the gateway's own pings are consumed, every other PINGRESP reaches an active client; plus the client's requests when sends to it fail (client unreachable); plus SUBSCRIBE / UNSUBSCRIBE of filters with empty levels (/a, a//b, a/, /, /#, +/, /+/x); per event exactly one translated packet with the same msg id, resolved filter and requested QoS; SUBACK accepted iff broker rc<=2, then granted QoS and assigned topic id"
	explore.RunScenarios(rep, gw.Scenarios(t, c03e2()), explore.ScenarioOpts{Test: "TestC03", QuickBound: 2, ThoroughFrom: 2, ThoroughMax: 4, Unbounded: true,
		QuickBudget: 60 * time.Second, ThoroughBudge: 5 * time.Minute})
	rep.Assumptions = []string{"BFS part: default schedule; E2 part: all interleavings within the preemption bound of the handler's threads against a broker that answers at once, single requests and five pipelined requests (the next request is handled while the previous answers are translated); no time passes (a SUBACK arriving after the gateway's own RetryDelay bookkeeping expired is not demanded)"}
	rep.Finish()
}
