package gwc

import (
	"encoding/json"
	"fmt"
	"strings"
	"testing"
	"time"

	"github.com/energomonitor/bisquitt/topics"

	"verif/mc/explore"
	"verif/mc/harness/gw"
	"verif/mc/ref/refmqtt"
	"verif/mc/vsched"
)

// ---- C15: client sessions are isolated from each other ------------------------------
//
// Two sessions built the way ListenAndServe builds them (one shared handler
// configuration, one shared predefined-topic map, own conns) run scripts in
// every interleaving; what each session sends must equal what it sends alone.

type script struct {
	name string
	evs  func(id string) []string // events of a session whose client id is id
}

func c15scripts() []script {
	mid := func(id string) uint16 { return uint16(id[1] - '0') }
	return []script{
		{"connect+register+publish", func(id string) []string {
			return []string{gw.EvC("CONNECT", gw.Connect(id, 30, false, true)), gw.EvB("CONNACK", refmqtt.EncConnack(0)),
				gw.EvC("REGISTER t/same", gw.Register(0, 5, "t/same")), gw.EvC("PUBLISH reg 2", gw.Publish(0, 2, mid(id), 1, false, false, "from-"+id))}
		}},
		{"auth+will connect", func(id string) []string {
			return []string{gw.EvC("CONNECT(will)", gw.Connect(id, 30, true, true)), gw.EvC("AUTH", gw.AuthPlain("user-"+id, "secret-of-"+id)),
				gw.EvC("WILLTOPIC", gw.WillTopic("will/"+id, 1, false)), gw.EvC("WILLMSG", gw.WillMsg("bye-"+id))}
		}},
		{"auth connect", func(id string) []string {
			return []string{gw.EvC("CONNECT", gw.Connect(id, 30, false, true)), gw.EvC("AUTH", gw.AuthPlain("user-"+id, "pw-"+id+"-x")), gw.EvB("CONNACK", refmqtt.EncConnack(0))}
		}},
		{"subscribe+broker publish", func(id string) []string {
			return []string{gw.EvC("CONNECT", gw.Connect(id, 30, false, true)), gw.EvB("CONNACK", refmqtt.EncConnack(0)),
				gw.Ev("SUBSCRIBE w/# + SUBACK", gw.EvC("", gw.SubscribeName(7, "w/#", 1, false)), gw.EvB("", refmqtt.EncSuback(7, 1))),
				gw.EvB("broker PUBLISH w/x", refmqtt.EncPublish("w/x", 1, false, false, 9, []byte("to-"+id)))}
		}},
		{"sleep+wake", func(id string) []string {
			return []string{gw.EvC("CONNECT", gw.Connect(id, 30, false, true)), gw.EvB("CONNACK", refmqtt.EncConnack(0)),
				gw.EvC("DISCONNECT(5)", gw.Disconnect(5)), gw.EvB("broker PUBLISH p/1", refmqtt.EncPublish("p/1", 0, false, false, 0, []byte("to-"+id))), gw.EvC("PINGREQ", gw.Pingreq(id))}
		}},
		{"predefined publish+disconnect", func(id string) []string {
			return []string{gw.EvC("CONNECT", gw.Connect(id, 30, false, true)), gw.EvB("CONNACK", refmqtt.EncConnack(0)),
				gw.EvC("PUBLISH predef 1", gw.Publish(1, 1, 3, 1, false, false, "x")), gw.EvC("DISCONNECT(0)", gw.Disconnect(0))}
		}},
		{"malformed datagram", func(id string) []string {
			return []string{gw.EvC("CONNECT", gw.Connect(id, 30, false, true)), gw.EvC("garbage", []byte{0x07}), gw.EvB("CONNACK", refmqtt.EncConnack(0))}
		}},
		{"illegal packet first", func(id string) []string {
			return []string{gw.EvC("REGISTER", gw.Register(0, 5, "t/same")), gw.EvC("CONNECT", gw.Connect(id, 30, false, true))}
		}},
	}
}

type c15cfg struct {
	name string
	cfg  gw.Config
}

func c15configs() []c15cfg {
	pre := func() topics.PredefinedTopics {
		return topics.PredefinedTopics{"c1": {1: "p/one"}, "*": {1: "p/1", 2: "p/2"}}
	}
	off := gw.DefaultConfig()
	off.Predefined = pre()
	on := gw.DefaultConfig()
	on.Predefined = pre()
	on.Auth = true
	u := "gateway-user"
	on.User = &u
	on.Password = []byte("gateway-default-password-long-enough")
	return []c15cfg{{"auth=off", off}, {"auth=on+creds", on}}
}

// observe runs one interleaving: order[i] selects whose next event runs (0 = A, 1 = B);
// a session absent from the run (solo) simply has no events.
func c15run(t *testing.T, cfg gw.Config, a, b []string, order []int, e2prefix []int, e2 bool) (logA, logB string, res explore.ExecResult) {
	// every run gets its own copy of the configuration objects the two sessions share: a session that
	// writes into them must be visible as a difference between this run and the solo runs, not poison all of them
	pre := topics.PredefinedTopics{}
	for cl, m := range cfg.Predefined {
		pre[cl] = map[uint16]string{}
		for id, n := range m {
			pre[cl][id] = n
		}
	}
	cfg.Predefined = pre
	if cfg.User != nil {
		u := *cfg.User
		cfg.User = &u
	}
	cfg.Password = append([]byte(nil), cfg.Password...)
	res, _ = explore.Bubble(t, e2prefix, func(s *vsched.Sched) (string, []explore.Violation) {
		s.NoChoice = !e2
		ga, gb := gw.NewPair(s, cfg)
		ia, ib := 0, 0
		for _, who := range order {
			if who == 0 && ia < len(a) {
				ga.Apply(a[ia])
				ia++
			} else if who == 1 && ib < len(b) {
				gb.Apply(b[ib])
				ib++
			}
			for _, g := range []*gw.GW{ga, gb} {
				if g.H.VEnding() && !g.Returned {
					s.Advance(200 * time.Millisecond)
				}
			}
		}
		render := func(g *gw.GW) string {
			var sb strings.Builder
			for _, o := range g.TakeSN() {
				sb.WriteString("sn:" + o.String() + "\n")
			}
			for _, o := range g.TakeMQ() {
				sb.WriteString("mq:" + o.P.String() + "\n")
			}
			fmt.Fprintf(&sb, "dialed=%d returned=%t state=%s reg=%v\n", g.Dialed, g.Returned, g.H.VState(), g.H.VRegistered())
			return sb.String()
		}
		logA, logB = render(ga), render(gb)
		s.NoChoice = true
		ga.Finish()
		gb.Finish()
		return logA + "||" + logB, nil
	})
	if len(res.Panics) > 0 {
		logA += "PANIC " + res.Panics[0]
	}
	return
}

func interleavings(na, nb int) [][]int {
	var out [][]int
	var rec func(cur []int, a, b int)
	rec = func(cur []int, a, b int) {
		if a == na && b == nb {
			out = append(out, append([]int{}, cur...))
			return
		}
		if a < na {
			rec(append(cur, 0), a+1, b)
		}
		if b < nb {
			rec(append(cur, 1), a, b+1)
		}
	}
	rec(nil, 0, 0)
	return out
}

type c15job struct{ Cfg, SA, SB int }
type c15res struct {
	Runs  int
	Viols []explore.Violation
	Herr  string
	Outs  int
}

func c15doJob(t *testing.T, j c15job) c15res {
	cfgs, scs := c15configs(), c15scripts()
	cfg := cfgs[j.Cfg]
	a, b := scs[j.SA].evs("c1"), scs[j.SB].evs("c2")
	var r c15res
	soloOrder := func(who, n int) []int {
		o := make([]int, n)
		for i := range o {
			o[i] = who
		}
		return o
	}
	soloA, _, ra := c15run(t, cfg.cfg, a, nil, soloOrder(0, len(a)), nil, false)
	_, soloB, rb := c15run(t, cfg.cfg, nil, b, soloOrder(1, len(b)), nil, false)
	r.Herr = ra.HarnessErr + rb.HarnessErr
	outs := map[string]bool{}
	for _, ord := range interleavings(len(a), len(b)) {
		la, lb, rr := c15run(t, cfg.cfg, a, b, ord, nil, false)
		r.Runs++
		outs[la+lb] = true
		if rr.HarnessErr != "" {
			r.Herr = rr.HarnessErr
		}
		for _, x := range []struct{ who, got, want, own, other string }{{"A", la, soloA, scs[j.SA].name, scs[j.SB].name}, {"B", lb, soloB, scs[j.SB].name, scs[j.SA].name}} {
			if x.got != x.want {
				r.Viols = append(r.Viols, explore.Violation{Property: "C15", Sig: fmt.Sprintf("session-influenced-by-other:%s:own=%s:other=%s", cfg.name, x.own, x.other),
					Detail:  fmt.Sprintf("session %s (%s) behaves differently next to a session running %q, order %v:\n--- alone\n%s--- interleaved\n%s", x.who, x.own, x.other, ord, x.want, x.got),
					History: []string{fmt.Sprint(ord)}, Scenario: cfg.name})
				break
			}
		}
	}
	r.Outs = len(outs)
	return r
}

func TestC15(t *testing.T) {
	if explore.IsWorker() {
		explore.Serve(func(name string, payload []byte) any {
			var j c15job
			json.Unmarshal(payload, &j)
			return c15doJob(t, j)
		})
		return
	}
	rep := explore.NewReport("C15", "model_checking")
	pool := explore.NewPool("TestC15", explore.Workers())
	defer pool.Close()
	cfgs, scs := c15configs(), c15scripts()
	var jobs []c15job
	for c := range cfgs {
		for a := range scs {
			for b := range scs {
				jobs = append(jobs, c15job{c, a, b})
			}
		}
	}
	results := make(chan c15res, len(jobs))
	for _, j := range jobs {
		go func(j c15job) {
			var r c15res
			if err := pool.Call("pair", j, &r); err != nil {
				r.Herr = err.Error()
			}
			results <- r
		}(j)
	}
	runs, outs := 0, 0
	for range jobs {
		r := <-results
		runs += r.Runs
		outs += r.Outs
		if r.Herr != "" {
			rep.HarnessErr = r.Herr
		}
		rep.Add(r.Viols...)
	}
	rep.Coverage = map[string]any{
		"states":                        outs,
		"transitions":                   runs,
		"traces_validated_against_impl": runs,
		"script_pairs":                  len(jobs),
		"exhaustive":                    true,
		"samples":                       []string{"A=auth+will connect(c1) || B=auth connect(c2), order [0 0 1 1 0 0 1]", "A=connect+register+publish || B=illegal packet first"},
		"rule":                          fmt.Sprintf("two real handlers sharing one handlerConfig and one PredefinedTopics map (as ListenAndServe builds them), %d configurations x %d x %d script pairs (connect/register/publish, auth+will, auth, subscribe + broker publish, sleep/wake, predefined publish + disconnect, malformed datagram, illegal first packet) x every interleaving of the two scripts; the datagrams, broker packets and final state of each session must equal those of the same script run alone; states = distinct joint observations", len(cfgs), len(scs), len(scs)),
	}
	rep.Assumptions = []string{"default schedule within an event (sessions share no goroutine; shared objects are the configuration and the predefined map)", "that each peer address gets its own conn is pion/udp's demultiplexer and is not modelled"}
	rep.Finish()
}
