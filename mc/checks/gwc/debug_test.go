package gwc

import (
	"fmt"
	"os"
	"strings"
	"testing"

	"verif/mc/explore"
	"verif/mc/harness/gw"
	"verif/mc/vsched"
)

// TestDebug replays VERIF_DEBUG="spec-test;label1;label2;..." (labels resolved
// against the spec's alphabet by trying every enabled event) and prints what happens.
func TestDebug(t *testing.T) {
	arg := os.Getenv("VERIF_DEBUG")
	if arg == "" {
		t.Skip()
	}
	parts := strings.Split(arg, ";")
	var sp gw.Spec
	switch parts[0] {
	case "C11":
		sp = c11specs()[0]
	case "C13":
		sp = c13specs("C13")[0]
	case "C24":
		sp = c2324specs("C24")[0]
	case "C24b":
		sp = c2324specs("C24")[1]
	case "C06":
		sp = c06specs()[12]
	default:
		t.Fatal("unknown spec")
	}
	explore.Bubble(t, nil, func(s *vsched.Sched) (string, []explore.Violation) {
		g := gw.New(s, sp.Cfg)
		m := sp.NewMonitor()
		do := func(ev string, setup bool) {
			g.Apply(ev)
			sn, mq := g.TakeSN(), g.TakeMQ()
			vs := m.After(g, ev, sn, mq, setup)
			fmt.Printf("== %s\n   sn=%v\n   mq=%v\n   viol=%v\n   snap=%s\n   mon=%s\n", gw.Label(ev), sn, mq, vs, g.Snapshot(), m.Key())
		}
		for _, ev := range sp.Setup {
			do(ev, true)
		}
		for _, want := range parts[1:] {
			found := ""
			for _, ev := range m.Next(g) {
				if gw.Label(ev) == want {
					found = ev
				}
			}
			if found == "" {
				fmt.Printf("!! event %q not enabled; enabled: %v\n", want, func() []string {
					var l []string
					for _, e := range m.Next(g) {
						l = append(l, gw.Label(e))
					}
					return l
				}())
				break
			}
			do(found, false)
		}
		g.Finish()
		return "", nil
	})
}
