package gwc

import (
	"fmt"
	"os"
	"strings"
	"testing"

	"verif/mc/explore"
	"verif/mc/harness/gw"
	"verif/mc/vsched"
)

// TestDebug replays VERIF_DEBUG="spec-test;label1;label2;..." (labels resolved
// against the spec's alphabet by trying every enabled event) and prints what happens.
func TestDebug(t *testing.T) {
	arg := os.Getenv("VERIF_DEBUG")
	if arg == "" {
		t.Skip()
	}
	parts := strings.Split(arg, ";")
	var sp gw.Spec
	switch parts[0] {
	case "C11":
		sp = c11specs()[0]
	case "C13":
		sp = c13specs("C13")[0]
	case "C34":
		sp = c34specs()[0]
	case "C01b":
		sp = c01specs()[1]
	case "C24":
		sp = c2324specs("C24")[0]
	case "C24b":
		sp = c2324specs("C24")[1]
	case "C06":
		sp = c06specs()[12]
	default:
		t.Fatal("unknown spec")
	}
	explore.Bubble(t, nil, func(s *vsched.Sched) (string, []explore.Violation) {
		g := gw.New(s, sp.Cfg)
		m := sp.NewMonitor()
		do := func(ev string, setup bool) {
			g.Apply(ev)
			sn, mq := g.TakeSN(), g.TakeMQ()
			vs := m.After(g, ev, sn, mq, setup)
			for _, o := range sn {
				fmt.Printf("   raw sn: %x err=%v\n", o.Raw, o.Err)
			}
			fmt.Printf("== %s\n   sn=%v\n   mq=%v\n   viol=%v\n   snap=%s\n   mon=%s\n", gw.Label(ev), sn, mq, vs, g.Snapshot(), m.Key())
		}
		for _, ev := range sp.Setup {
			do(ev, true)
		}
		for _, want := range parts[1:] {
			found := ""
			for _, ev := range m.Next(g) {
				if gw.Label(ev) == want {
					found = ev
				}
			}
			if found == "" {
				fmt.Printf("!! event %q not enabled; enabled: %v\n", want, func() []string {
					var l []string
					for _, e := range m.Next(g) {
						l = append(l, gw.Label(e))
					}
					return l
				}())
				break
			}
			do(found, false)
		}
		g.Finish()
		return "", nil
	})
}

// TestDebugE2 replays VERIF_DEBUG_E2="C13;<scenario name substring>;1,0,0,1" and prints the trace with labels.
func TestDebugE2(t *testing.T) {
	arg := os.Getenv("VERIF_DEBUG_E2")
	if arg == "" {
		t.Skip()
	}
	parts := strings.Split(arg, ";")
	var specs []gw.E2Spec
	switch parts[0] {
	case "C13", "C14":
		specs = c13e2(parts[0])
	case "C03":
		specs = c03e2()
	case "C11":
		specs = c11e2()
	default:
		t.Fatal("unknown property")
	}
	var prefix []int
	for _, f := range strings.Split(parts[2], ",") {
		var n int
		fmt.Sscan(f, &n)
		prefix = append(prefix, n)
	}
	for _, sp := range specs {
		if !strings.Contains(sp.Name, parts[1]) {
			continue
		}
		res := gw.RunE2(t, sp, prefix)
		fmt.Printf("== %s\n", sp.Name)
		for i, st := range res.Trace {
			fmt.Printf("  %2d kind=%v n=%d choice=%d t=%v %v\n", i, st.Kind, st.N, st.Choice, st.Time, st.Labels)
		}
		fmt.Printf("outcome: %s\nviolations: %v\nharness: %s\npanics: %v\n", res.Outcome, res.Violations, res.HarnessErr, res.Panics)
		return
	}
}
