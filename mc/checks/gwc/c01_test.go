package gwc

import (
	"fmt"
	"strings"
	"testing"

	"github.com/energomonitor/bisquitt/topics"

	"verif/mc/explore"
	"verif/mc/harness/gw"
	"verif/mc/ref/refmqtt"
	"verif/mc/ref/refsn"
)

// ---- C01: client PUBLISH reaches the broker unchanged ------------------------------

type c01mon struct {
	cfg       topics.PredefinedTopics
	reg       map[uint16]string    // the client's view: ids it was told (REGACK / SUBACK / accepted REGISTER)
	maybe     map[uint16]string    // ids the gateway announced but the client did not (yet) accept
	pendingGW map[uint16]refsn.Pkt // gateway REGISTERs awaiting the client's REGACK, by msg id
	subNames  map[uint16]string    // SUBSCRIBE msg id -> plain topic name
	orphans   map[string]bool      // names subscribed whose SUBACK can no longer be attributed (msg id reused)
	published bool
	depth     int
	maxDepth  int
	regAlpha  []string
	pubAlpha  []string
}

func (m *c01mon) After(g *gw.GW, ev string, sn []gw.SNOut, mq []gw.MQOut, setup bool) []explore.Violation {
	var vs []explore.Violation
	if !setup {
		m.depth++
	} else {
		// publishes of the setup (by the still anonymous client) are not judged and do not end the history
		defer func() { m.published = false }()
	}
	var pub *refsn.Pkt
	for _, st := range steps(ev) {
		if st.kind != "C" {
			continue
		}
		p := st.sn
		switch p.Type {
		case refsn.SUBSCRIBE:
			if p.TIT == 0 && !strings.ContainsAny(p.Str, "+#") {
				if old, ok := m.subNames[p.MsgID]; ok {
					m.orphans[old] = true
				}
				m.subNames[p.MsgID] = p.Str
			}
		case refsn.REGACK:
			if r, ok := m.pendingGW[p.MsgID]; ok {
				delete(m.pendingGW, p.MsgID)
				delete(m.maybe, r.TopicID)
				if p.RC == 0 {
					m.reg[r.TopicID] = r.Str
				}
			}
		case refsn.PUBLISH:
			q := p
			pub = &q
		}
	}
	var regName string
	for _, st := range steps(ev) {
		if st.kind == "C" && st.sn.Type == refsn.REGISTER {
			regName = st.sn.Str
		}
	}
	for _, o := range sn {
		if o.Err != nil {
			continue
		}
		switch o.P.Type {
		case refsn.REGACK:
			if o.P.RC == 0 && regName != "" {
				m.reg[o.P.TopicID] = regName
			}
		case refsn.SUBACK:
			if name, ok := m.subNames[o.P.MsgID]; ok && o.P.RC == 0 && o.P.TopicID != 0 {
				m.reg[o.P.TopicID] = name
				delete(m.subNames, o.P.MsgID)
			}
		case refsn.REGISTER:
			m.pendingGW[o.P.MsgID] = o.P
			m.maybe[o.P.TopicID] = o.P.Str
		}
	}
	if pub == nil {
		return nil
	}
	m.published = true
	// what the topic id denotes at this moment (client-side view)
	var want string
	denotes := false
	// names the gateway may have registered under an id the client was not (yet) told
	unannounced := map[string]bool{}
	switch pub.TIT {
	case 0:
		want, denotes = m.reg[pub.TopicID]
		if !denotes {
			if n, ok := m.maybe[pub.TopicID]; ok {
				unannounced[n] = true
			}
			for _, n := range m.subNames {
				unannounced[n] = true
			}
			for n := range m.orphans {
				unannounced[n] = true
			}
		}
	case 1:
		want, denotes = refPredef(m.cfg, "c1", pub.TopicID)
	case 2:
		want, denotes = string([]byte{byte(pub.TopicID >> 8), byte(pub.TopicID)}), true
	}
	var pubs []refmqtt.Pkt
	for _, o := range mq {
		if o.P.Type == refmqtt.PUBLISH {
			pubs = append(pubs, o.P)
		}
	}
	desc := fmt.Sprintf("PUBLISH{dup=%t qos=%d retain=%t tit=%d tid=%d mid=%d len=%d}", pub.DUP, pub.QoS, pub.Retain, pub.TIT, pub.TopicID, pub.MsgID, len(pub.Data))
	if !denotes {
		if len(pubs) == 0 {
			return vs
		}
		if len(pubs) == 1 && unannounced[pubs[0].Topic] {
			want = pubs[0].Topic // in flight between the two sides' views: either outcome is accepted
		} else {
			vs = append(vs, explore.Violation{Sig: fmt.Sprintf("forwarded-although-topic-id-denotes-nothing:tit=%d", pub.TIT),
				Detail: fmt.Sprintf("%s denotes no topic but %v was forwarded", desc, pubs[0])})
			return vs
		}
	}
	if len(pubs) == 0 && (pub.QoS == 1 || pub.QoS == 2) && pub.MsgID == 0 {
		// not translatable into a valid MQTT PUBLISH (packet id 0): the gateway may refuse it (C24)
		return vs
	}
	if len(pubs) != 1 {
		vs = append(vs, explore.Violation{Sig: fmt.Sprintf("not-exactly-one-mqtt-publish:n=%d:tit=%d", len(pubs), pub.TIT),
			Detail: fmt.Sprintf("%s (topic %q): %d MQTT PUBLISH packets forwarded", desc, want, len(pubs))})
		return vs
	}
	p := pubs[0]
	wq := pub.QoS
	if wq == 3 {
		wq = 0
	}
	bad := ""
	switch {
	case p.Topic != want:
		bad = "topic"
	case string(p.Payload) != string(pub.Data):
		bad = "payload"
	case p.Retain != pub.Retain:
		bad = "retain"
	case p.Dup != pub.DUP:
		bad = "dup"
	case p.QoS != wq:
		bad = "qos"
	case wq > 0 && p.ID != pub.MsgID:
		bad = "msgid"
	}
	if bad != "" {
		vs = append(vs, explore.Violation{Sig: "mqtt-publish-differs:" + bad, Detail: fmt.Sprintf("%s (topic %q) forwarded as %v", desc, want, p)})
	}
	return vs
}

func (m *c01mon) Key() string {
	return fmt.Sprintf("reg=%s maybe=%s pend=%d subs=%s orph=%d pub=%t d=%d", mapKey(m.reg), mapKey(m.maybe), len(m.pendingGW), mapKey(m.subNames), len(m.orphans), m.published, m.depth)
}
func (m *c01mon) Class() string { return fmt.Sprintf("pub=%t", m.published) }
func (m *c01mon) Next(g *gw.GW) []string {
	if g.Returned || m.published {
		return nil
	}
	if m.depth >= m.maxDepth {
		return m.pubAlpha
	}
	return append(append([]string{}, m.regAlpha...), m.pubAlpha...)
}

func c01config() topics.PredefinedTopics {
	return topics.PredefinedTopics{"c1": {1: "p/1"}, "*": {1: "p/x", 2: "p/2"}}
}

func c01regAlphabet() []string {
	suback := func(mid uint16, rc byte) string { return gw.EvB("", refmqtt.EncSuback(mid, rc)) }
	return []string{
		gw.EvC("REGISTER a/b", gw.Register(0, 7, "a/b")),
		gw.EvC("REGISTER c", gw.Register(0, 8, "c")),
		gw.Ev("SUBSCRIBE a/b + SUBACK", gw.EvC("", gw.SubscribeName(9, "a/b", 1, false)), suback(9, 1)),
		gw.EvC("SUBSCRIBE a/b (no SUBACK yet)", gw.SubscribeName(9, "a/b", 1, false)),
		gw.Ev("SUBSCRIBE a/# + SUBACK", gw.EvC("", gw.SubscribeName(10, "a/#", 0, false)), suback(10, 0)),
		gw.Ev("SUBSCRIBE predef 1 + SUBACK", gw.EvC("", gw.SubscribeID(11, 1, 1, 0, false)), suback(11, 0)),
		gw.EvB("broker PUBLISH n/1 q1", refmqtt.EncPublish("n/1", 1, false, false, 5, []byte("b"))),
		gw.EvC("REGACK(mid 5, accepted)", gw.Regack(0, 5, 0)),
		gw.EvC("REGACK(mid 5, rejected)", gw.Regack(0, 5, 2)),
	}
}

func c01pubAlphabet(thorough bool) []string {
	var a []string
	tids := []uint16{0, 1, 2, 3, gw.ShortID("xy"), 0xFFFF}
	for _, dup := range []bool{false, true} {
		for qos := uint8(0); qos < 4; qos++ {
			for _, ret := range []bool{false, true} {
				for tit := uint8(0); tit < 4; tit++ {
					for _, tid := range tids {
						for _, mid := range []uint16{0, 1, 2} {
							for _, pl := range []string{"", "\x00\xffp\x00"} {
								a = append(a, gw.EvC(fmt.Sprintf("PUBLISH{dup=%t q=%d ret=%t tit=%d tid=%d mid=%d pl=%q}", dup, qos, ret, tit, tid, mid, pl),
									gw.Publish(tit, tid, mid, qos, dup, ret, pl)))
							}
						}
					}
				}
			}
		}
	}
	// payload sizes across the header-form boundary and the maximum
	sizes := []int{246, 247, 248, 249, 250, 7168}
	for _, n := range sizes {
		for tit := uint8(0); tit < 3; tit++ {
			a = append(a, gw.EvC(fmt.Sprintf("PUBLISH{q=1 tit=%d tid=1 mid=3 len=%d}", tit, n), gw.Publish(tit, 1, 3, 1, false, false, strings.Repeat("z", n))))
		}
	}
	return a
}

func c01specs() []gw.Spec {
	depth := 2
	if explore.Tier() == "thorough" {
		depth = 3
	}
	cfg := gw.DefaultConfig()
	cfg.Predefined = c01config()
	reg, pub := c01regAlphabet(), c01pubAlphabet(explore.Tier() == "thorough")
	mon := func() gw.Monitor {
		return &c01mon{cfg: c01config(), reg: map[uint16]string{}, maybe: map[uint16]string{}, pendingGW: map[uint16]refsn.Pkt{}, subNames: map[uint16]string{}, orphans: map[string]bool{},
			maxDepth: depth, regAlpha: reg, pubAlpha: pub}
	}
	// the same session used anonymously first: QoS -1 publishes on predefined ids before the CONNECT (the client
	// id is not known yet, only the "*" entries apply); what the ids denote "at that moment" changes with the CONNECT
	anon := append([]string{
		gw.EvC("PUBLISH(q-1,predef 1) before CONNECT", gw.Publish(1, 1, 0, 3, false, false, "a")),
		gw.EvC("PUBLISH(q-1,predef 2) before CONNECT", gw.Publish(1, 2, 0, 3, false, false, "a")),
	}, connectSetup("c1", 30)...)
	// earlier publishes still unacknowledged by the broker: a retransmission (DUP, same message id) and any other
	// publish under the pending ids is forwarded like every accepted PUBLISH
	pend := append(connectSetup("c1", 30),
		gw.EvC("PUBLISH(q1,predef 1,mid 1) unanswered", gw.Publish(1, 1, 1, 1, false, false, "a")),
		gw.EvC("PUBLISH(q1,short xy,mid 2) unanswered", gw.Publish(2, gw.ShortID("xy"), 2, 1, false, false, "a")))
	return []gw.Spec{{Name: "c1", Cfg: cfg, Setup: connectSetup("c1", 30), NewMonitor: mon},
		{Name: "c1 with unacknowledged publishes", Cfg: cfg, Setup: pend, Depth: 1, NewMonitor: mon},
		{Name: "c1 after anonymous publishes", Cfg: cfg, Setup: anon, Depth: 1, NewMonitor: mon}}
}

func TestC01(t *testing.T) {
	specs := c01specs()
	if explore.IsWorker() {
		gw.ServeBFS(t, specs)
		return
	}
	rep := explore.NewReport("C01", "model_checking")
	gw.BFSCheck(rep, specs, gw.BFSOpts{Test: "TestC01"}, 150, 900)
	rep.Coverage["rule"] = "BFS over registration histories (REGISTER x2, SUBSCRIBE plain with and without SUBACK, wildcard, predefined, broker PUBLISH on a new topic, REGACK accepted/rejected) to depth 2 (thorough 3) after a connect (and, to depth 1, after a connect that follows QoS -1 publishes on predefined ids by the still anonymous client, and after two QoS 1 publishes the broker has not acknowledged yet); in every reached state every PUBLISH of DUP{0,1} x QoS{0..3} x Retain{0,1} x TopicIdType{0..3} x TopicId{0,1,2,3,'xy',0xFFFF} x MsgId{0,1,2} x payload{empty,'p'} plus payload sizes {246..250,7168}; the monitor keeps the client-side view of what each topic id denotes and checks the MQTT byte stream with an independent parser"
	rep.Assumptions = []string{"default schedule", "an id the gateway has announced but the client has not yet accepted (REGISTER in flight, SUBSCRIBE without SUBACK) may or may not denote: both outcomes accepted"}
	rep.Finish()
}
