package gwc

import (
	"fmt"
	"strings"
	"testing"

	"github.com/energomonitor/bisquitt/topics"

	"verif/mc/explore"
	"verif/mc/harness/gw"
	"verif/mc/ref/refmqtt"
	"verif/mc/ref/refsn"
)

// ---- C23 (every MQTT-SN datagram the gateway sends is well-formed) and
// ---- C24 (every MQTT packet it writes to the broker is valid MQTT 3.1.1) ------------
// Universal monitors on one exploration whose alphabet contains the corner inputs
// the two properties name.

func checkDatagram(o gw.SNOut, toClient bool) (sig, detail string) {
	if len(o.Raw) > 8192 {
		return "datagram-larger-than-8192", fmt.Sprintf("%d-byte datagram %x...", len(o.Raw), o.Raw[:8])
	}
	if o.Err != nil {
		return "undecodable-datagram", fmt.Sprintf("%x: %v", trunc(o.Raw), o.Err)
	}
	if o.P.Length != len(o.Raw) {
		return "length-field-differs-from-size:" + o.P.Name(), fmt.Sprintf("%s: length field %d, datagram size %d", o.P.Name(), o.P.Length, len(o.Raw))
	}
	if (o.P.HdrLen == 2) != (len(o.Raw) <= 255) {
		return "wrong-length-form:" + o.P.Name(), fmt.Sprintf("%s of %d bytes uses a %d-byte header", o.P.Name(), len(o.Raw), o.P.HdrLen)
	}
	if toClient && !refsn.GatewayMaySend(o.P.Type) {
		return "type-invalid-for-direction:" + o.P.Name(), fmt.Sprintf("gateway sent %s to a client", o.P.Name())
	}
	if !toClient && !refsn.ClientMaySend(o.P.Type) {
		return "type-invalid-for-direction:" + o.P.Name(), fmt.Sprintf("client sent %s to a gateway", o.P.Name())
	}
	return "", ""
}

func trunc(b []byte) []byte {
	if len(b) > 24 {
		return b[:24]
	}
	return b
}

// checkMQTT returns the violations of MQTT 3.1.1 in one packet that C24 judges.
func checkMQTT(p refmqtt.Pkt) []string {
	var out []string
	for _, why := range p.Invalid {
		// C01 demands that the client's DUP flag is preserved, also at QoS 0: not judged here
		if strings.HasPrefix(why, "PUBLISH DUP set with QoS 0") {
			continue
		}
		out = append(out, why)
	}
	return out
}

type c2324mon struct {
	prop        string
	outstanding int
	depth       int
	maxDepth    int
	alphabet    []string
	corner      []string
	used        map[string]bool
	ended       bool
	connected   bool
}

func (m *c2324mon) After(g *gw.GW, ev string, sn []gw.SNOut, mq []gw.MQOut, setup bool) []explore.Violation {
	var vs []explore.Violation
	if !setup {
		m.depth++
		m.used[ev] = true
	}
	on := "event"
	if st := steps(ev)[0]; st.kind == "C" {
		on = "client-" + st.sn.Name()
	} else if st.kind == "B" {
		on = "broker-" + st.mq.Name()
	}
	for _, st := range steps(ev) {
		if st.kind == "B" && st.mq.Type == refmqtt.CONNACK {
			m.outstanding--
			if st.mq.RC == 0 {
				m.connected = true
			}
		}
	}
	for _, o := range mq {
		if o.P.Type == refmqtt.CONNECT {
			m.outstanding++
		}
		if m.prop == "C24" {
			for _, why := range checkMQTT(o.P) {
				sig := why
				if i := strings.IndexAny(sig, "\"0123456789"); i > 0 {
					sig = strings.TrimSpace(sig[:i])
				}
				vs = append(vs, explore.Violation{Property: "C24", Sig: "invalid-mqtt:" + o.P.Name() + ":" + sig + ":on=" + on,
					Detail: fmt.Sprintf("%v written to the broker: %s (event %s)", o.P, why, gw.Label(ev))})
			}
		}
	}
	if m.prop == "C24" && g.MQErr != "" {
		vs = append(vs, explore.Violation{Property: "C24", Sig: "unparseable-mqtt-stream", Detail: g.MQErr})
	}
	if m.prop == "C23" {
		for _, o := range sn {
			if sig, detail := checkDatagram(o, true); sig != "" {
				vs = append(vs, explore.Violation{Property: "C23", Sig: sig + ":on=" + on, Detail: detail + " (event " + gw.Label(ev) + ")"})
			}
		}
	}
	m.ended = g.Returned
	return vs
}

func (m *c2324mon) Key() string {
	return fmt.Sprintf("out=%d d=%d conn=%t", m.outstanding, m.depth, m.connected)
}
func (m *c2324mon) Class() string { return fmt.Sprintf("connected=%t ended=%t", m.connected, m.ended) }
func (m *c2324mon) Next(g *gw.GW) []string {
	if g.Returned || g.H.VEnding() || m.depth >= m.maxDepth {
		return nil
	}
	var a []string
	for _, e := range append(append([]string{}, m.alphabet...), m.corner...) {
		if p, isB := brokerPkt(e); isB && p.Type == refmqtt.CONNACK && m.outstanding <= 0 {
			continue
		}
		a = append(a, e)
	}
	return a
}

func bigPayload(n int) []byte { return []byte(strings.Repeat("z", n)) }

func cornerEvents(prop string) []string {
	var a []string
	if prop == "C23" {
		for _, n := range []int{0, 7168, 8183, 8184, 8185, 65530, 65531, 70000} {
			a = append(a,
				gw.EvB(fmt.Sprintf("broker PUBLISH(xy,q0,%d bytes)", n), refmqtt.EncPublish("xy", 0, false, false, 0, bigPayload(n))),
				gw.EvB(fmt.Sprintf("broker PUBLISH(p/1,q1,%d bytes)", n), refmqtt.EncPublish("p/1", 1, false, false, 21, bigPayload(n))),
				gw.EvB(fmt.Sprintf("broker PUBLISH(w/new,q0,%d bytes)", n), refmqtt.EncPublish("w/new", 0, false, false, 0, bigPayload(n))))
		}
		// sizes across the one-octet / three-octet length form boundary (datagram sizes 254..258)
		for _, n := range []int{247, 248, 249, 250, 251} {
			a = append(a,
				gw.EvB(fmt.Sprintf("broker PUBLISH(xy,q0,%d bytes)", n), refmqtt.EncPublish("xy", 0, false, false, 0, bigPayload(n))),
				gw.EvB(fmt.Sprintf("broker PUBLISH(p/1,q1,%d bytes)", n), refmqtt.EncPublish("p/1", 1, false, false, 21, bigPayload(n))))
		}
		for _, n := range []int{247, 248, 249, 250} {
			a = append(a, gw.EvB(fmt.Sprintf("broker PUBLISH(%d-byte new topic)", n+2), refmqtt.EncPublish("w/"+strings.Repeat("t", n), 0, false, false, 0, []byte("x"))))
		}
		a = append(a,
			gw.EvB("broker PUBLISH(new topic with multi-octet characters)", refmqtt.EncPublish("w/kuchy\u0148/\u00b0C", 0, false, false, 0, []byte("x"))),
			gw.EvB("broker PUBLISH(8170-byte new topic)", refmqtt.EncPublish("w/"+strings.Repeat("t", 8170), 0, false, false, 0, []byte("x"))),
			gw.EvC("REGISTER(7168-byte name)", gw.Register(0, 5, strings.Repeat("n", 7168))),
			gw.EvC("CONNECT(c1,0)", gw.Connect("c1", 0, false, true)),
			gw.EvC("CONNECT(protocol id 2)", refsn.Pkt{Type: refsn.CONNECT, ProtoID: 2, Duration: 30, Data: []byte("c1")}.Encode()),
			// requests in the 3-octet length form although they are short (MQTT-SN 1.2 5.2.1 allows it): a reply that
			// reuses the request's header must still be well-formed
			// two messages at once: a sleeping client's backlog of more than one packet
			gw.Ev("2 broker PUBLISHes (xy,q0)", gw.EvB("", refmqtt.EncPublish("xy", 0, false, false, 0, []byte("one"))), gw.EvB("", refmqtt.EncPublish("xy", 0, false, false, 0, []byte("two")))),
			gw.EvC("DISCONNECT(3-octet length form)", []byte{0x01, 0x00, 0x04, 0x18}),
			gw.EvC("PINGREQ(3-octet length form)", []byte{0x01, 0x00, 0x04, 0x16}),
			gw.EvC("DISCONNECT(5, 3-octet length form)", []byte{0x01, 0x00, 0x06, 0x18, 0x00, 0x05}),
		)
		return a
	}
	// C24: client input that cannot be translated into a valid MQTT packet
	a = append(a,
		gw.EvC("PUBLISH(tit 3)", gw.Publish(3, 1, 1, 0, false, false, "x")),
		gw.EvC("PUBLISH(q1,predef 1,mid 0)", gw.Publish(1, 1, 0, 1, false, false, "x")),
		gw.EvC("PUBLISH(q2,predef 1,mid 0)", gw.Publish(1, 1, 0, 2, false, false, "x")),
		gw.EvC("PUBLISH(short a+)", gw.Publish(2, gw.ShortID("a+"), 1, 0, false, false, "x")),
		gw.EvC("PUBLISH(short #x)", gw.Publish(2, gw.ShortID("#x"), 1, 0, false, false, "x")),
		gw.EvC("PUBLISH(q-1,short +/)", gw.Publish(2, gw.ShortID("+/"), 0, 3, false, false, "x")),
		// QoS -1 (flag bits 0b11) is legal for a connected client too: it must reach the broker as QoS 0, never as 3
		gw.EvC("PUBLISH(q-1,short xy)", gw.Publish(2, gw.ShortID("xy"), 0, 3, false, false, "x")),
		gw.EvC("PUBLISH(q-1,predef 1)", gw.Publish(1, 1, 0, 3, false, false, "x")),
		gw.EvC("PUBLISH(q-1,registered 2)", gw.Publish(0, 2, 0, 3, false, false, "x")),
		gw.EvC("SUBSCRIBE(a/b,q3)", gw.SubscribeName(2, "a/b", 3, false)),
		gw.EvC("SUBSCRIBE(a/b,mid 0)", gw.SubscribeName(0, "a/b", 1, false)),
		gw.EvC("SUBSCRIBE(a/#/b malformed filter)", gw.SubscribeName(3, "a/#/b", 1, false)),
		gw.EvC("SUBSCRIBE(a+ malformed filter)", gw.SubscribeName(3, "a+", 1, false)),
		gw.EvC("UNSUBSCRIBE(a/b,mid 0)", gw.UnsubscribeName(0, "a/b")),
		gw.EvC("REGISTER(a/#)", gw.Register(0, 4, "a/#")),
		gw.EvC("REGISTER(+)", gw.Register(0, 5, "+")),
		gw.EvC("PUBLISH(reg 1 after wildcard REGISTER)", gw.Publish(0, 1, 1, 0, false, false, "x")),
		gw.EvC("PUBLISH(reg 2 after wildcard REGISTER)", gw.Publish(0, 2, 1, 0, false, false, "x")),
		gw.EvC("CONNECT(c1,30,will)", gw.Connect("c1", 30, true, true)),
		gw.EvC("CONNECT(empty client id, no clean session)", gw.Connect("", 30, false, false)),
		gw.EvC("WILLTOPIC(empty)", gw.WillTopic("", 0, false)),
		gw.EvC("WILLTOPIC(w,q3)", gw.WillTopic("w", 3, false)),
		gw.EvC("WILLTOPIC(w/#)", gw.WillTopic("w/#", 1, false)),
		gw.EvC("WILLTOPIC(w,q1)", gw.WillTopic("w", 1, true)),
		gw.EvC("WILLTOPIC(one NUL octet)", gw.WillTopic("\x00", 1, false)),
		gw.EvC("WILLTOPIC(w + NUL)", gw.WillTopic("w\x00", 1, false)),
		gw.EvC("WILLMSG(m)", gw.WillMsg("m")),
		gw.EvC("PUBREL(mid 0)", gw.Pubrel(0)),
		gw.EvC("PUBLISH(q0,predef 5 = s/+/t)", gw.Publish(1, 5, 0, 0, false, false, "x")),
		gw.EvC("PUBLISH(q1,predef 6 = s/#)", gw.Publish(1, 6, 4, 1, false, false, "x")),
		gw.EvC("PUBLISH(q0,predef 7 = empty name)", gw.Publish(1, 7, 0, 0, false, false, "x")),
		gw.EvC("SUBSCRIBE(predef 7 = empty name)", gw.SubscribeID(5, 1, 7, 1, false)),
	)
	return a
}

func c2324specs(prop string) []gw.Spec {
	depth := 3
	if explore.Tier() == "thorough" {
		depth = 4
	}
	connected := []string{
		gw.Ev("SUBSCRIBE w/# + SUBACK", gw.EvC("", gw.SubscribeName(9, "w/#", 1, false)), gw.EvB("", refmqtt.EncSuback(9, 1))),
		gw.EvC("DISCONNECT(5)", gw.Disconnect(5)),
		gw.EvC("PINGREQ(wake)", gw.Pingreq("c1")),
		gw.EvC("CONNECT(c1,30)", gw.Connect("c1", 30, false, true)),
	}
	connecting := []string{
		gw.EvC("CONNECT(c1,30)", gw.Connect("c1", 30, false, true)),
		gw.EvB("CONNACK(0)", refmqtt.EncConnack(0)),
		gw.EvB("CONNACK(5)", refmqtt.EncConnack(5)),
	}
	cfg := gw.DefaultConfig()
	cfg.Predefined = topics.PredefinedTopics{"*": {1: "p/1"}}
	if prop == "C24" {
		// predefined names a client may subscribe to but cannot publish on: filters, and an empty name
		cfg.Predefined = topics.PredefinedTopics{"*": {1: "p/1", 5: "s/+/t", 6: "s/#", 7: ""}}
	}
	var pre, post []string
	for _, e := range cornerEvents(prop) {
		l := gw.Label(e)
		if strings.HasPrefix(l, "CONNECT") || strings.HasPrefix(l, "WILL") {
			pre = append(pre, e)
		} else {
			post = append(post, e)
		}
	}
	setup := connectSetup("c1", 30)
	if prop == "C24" {
		// a registered topic (it gets id 2), so that "PUBLISH(q-1,registered 2)" of a connected client is translatable
		setup = append(setup, gw.EvC("REGISTER r/9", gw.Register(0, 8, "r/9")))
	}
	return []gw.Spec{
		{Name: prop + ":connect-phase", Cfg: cfg, NewMonitor: func() gw.Monitor {
			return &c2324mon{prop: prop, maxDepth: depth + 1, alphabet: connecting, corner: pre, used: map[string]bool{}}
		}},
		{Name: prop + ":connected", Cfg: cfg, Setup: setup, NewMonitor: func() gw.Monitor {
			return &c2324mon{prop: prop, maxDepth: depth, alphabet: connected, corner: post, used: map[string]bool{}}
		}},
	}
}

func runWellFormed(t *testing.T, prop, test string) {
	specs := c2324specs(prop)
	if explore.IsWorker() {
		gw.ServeBFS(t, specs)
		return
	}
	rep := explore.NewReport(prop, "model_checking")
	gw.BFSCheck(rep, specs, gw.BFSOpts{Test: test}, 240, 1500)
	if prop == "C23" {
		rep.Coverage["rule"] = "BFS (depth 3, thorough 4) over connect / subscribe / sleep / wake events plus the corner inputs the property names (broker payloads of 0..70000 bytes on short, predefined and new topics, payloads and new topic names that put the datagram size at 254..258 bytes, a new topic name with multi-octet characters, an 8170-byte new topic name, a 7168-byte REGISTER, CONNECT with keep-alive 0 and with a wrong protocol id, CONNECT while asleep/awake, DISCONNECT / PINGREQ requests in the 3-octet length form, two broker messages at once for a sleeping client); every datagram the gateway sends is decoded by the reference decoder: decodable, type valid gateway->client, length field = size, canonical length form, size <= 8192. (The client-library direction is checked by the client harness part.)"
	} else {
		rep.Coverage["rule"] = "BFS (depth 3, thorough 4) over connect / subscribe / sleep / wake events plus malformed-but-decodable client input (reserved topic id type, QoS 1/2 with msg id 0, short topics containing wildcards, SUBSCRIBE QoS 3 / msg id 0 / malformed filters, REGISTER of wildcard names and publishing to them, QoS -1 publishes on short, predefined and registered topics, publishes and a subscription on predefined ids whose configured names are filters or empty, will QoS 3, wildcard will topic, empty WILLTOPIC with the Will flag, empty client id without clean session, PUBREL msg id 0); every packet written to the broker is parsed and validated by an independent MQTT 3.1.1 validator"
	}
	rep.Assumptions = []string{"default schedule", "data values outside the alphabet (e.g. ill-formed UTF-8 in names) are not covered", "C24 does not judge DUP=1 with QoS 0 (C01 demands the client's DUP flag is preserved)"}
	rep.Finish()
}

func TestC23(t *testing.T) { runWellFormed(t, "C23", "TestC23") }
func TestC24(t *testing.T) { runWellFormed(t, "C24", "TestC24") }
