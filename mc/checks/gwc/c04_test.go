package gwc

import (
	"fmt"
	"strings"
	"testing"

	"github.com/energomonitor/bisquitt/topics"

	"verif/mc/explore"
	"verif/mc/harness/gw"
	"verif/mc/ref/refmqtt"
	"verif/mc/ref/refsn"
	"verif/mc/vsched"
)

// ---- C04: topic ids are unique per session and never reassigned -------------------

type c04mon struct {
	cfg      topics.PredefinedTopics
	lo, hi   uint16
	assigned map[uint16]string // every id the gateway ever handed out -> name (forever)
	subNames map[uint16]string
	regName  string
	alphabet []string
	ended    bool
	refused  int
	nUsable  int
	names    map[string]bool
}

func (m *c04mon) usable() int {
	if m.nUsable > 0 {
		return m.nUsable
	}
	n := 0
	for id := int(m.lo); id <= int(m.hi); id++ {
		if _, pre := refPredef(m.cfg, "c1", uint16(id)); !pre {
			n++
		}
	}
	m.nUsable = n
	return n
}

func (m *c04mon) handout(vs *[]explore.Violation, how string, id uint16, name, ev string) {
	add := func(sig, f string, a ...any) {
		*vs = append(*vs, explore.Violation{Sig: sig, Detail: fmt.Sprintf(f, a...) + " (event " + gw.Label(ev) + ")"})
	}
	if id < m.lo || id > m.hi {
		add("id-out-of-range:"+how, "topic id %d handed out by %s is outside %d..%d", id, how, m.lo, m.hi)
	}
	if pn, ok := refPredef(m.cfg, "c1", id); ok {
		add("id-collides-with-predefined:"+how, "topic id %d handed out by %s for %q is the predefined id of %q for this client", id, how, name, pn)
	}
	if old, ok := m.assigned[id]; ok && old != name {
		add("id-reassigned:"+how, "topic id %d denoted %q and is now handed out by %s for %q", id, old, how, name)
	}
	m.assigned[id] = name
	if m.names == nil {
		m.names = map[string]bool{}
	}
	m.names[name] = true
}

func (m *c04mon) After(g *gw.GW, ev string, sn []gw.SNOut, mq []gw.MQOut, setup bool) []explore.Violation {
	var vs []explore.Violation
	exhaustedBefore := len(m.assigned) >= m.usable()
	m.regName = ""
	var newAlloc []string // allocations this event asked for (names not yet known to have an id)
	for _, st := range steps(ev) {
		switch {
		case st.kind == "C" && st.sn.Type == refsn.REGISTER:
			m.regName = st.sn.Str
			if !m.has(st.sn.Str) {
				newAlloc = append(newAlloc, "REGACK")
			}
		case st.kind == "C" && st.sn.Type == refsn.SUBSCRIBE && st.sn.TIT == 0 && !strings.ContainsAny(st.sn.Str, "+#"):
			m.subNames[st.sn.MsgID] = st.sn.Str
			newAlloc = append(newAlloc, "SUBACK")
		case st.kind == "B" && st.mq.Type == refmqtt.PUBLISH && len(st.mq.Topic) != 2 && !m.has(st.mq.Topic):
			newAlloc = append(newAlloc, "REGISTER")
		}
	}
	accepted := 0
	for _, o := range sn {
		if o.Err != nil {
			continue
		}
		switch o.P.Type {
		case refsn.REGACK:
			if o.P.RC == 0 && m.regName != "" {
				m.handout(&vs, "REGACK", o.P.TopicID, m.regName, ev)
				accepted++
			}
		case refsn.SUBACK:
			if name, ok := m.subNames[o.P.MsgID]; ok {
				delete(m.subNames, o.P.MsgID)
				if o.P.RC == 0 {
					m.handout(&vs, "SUBACK", o.P.TopicID, name, ev)
					accepted++
				}
			}
		case refsn.REGISTER:
			m.handout(&vs, "REGISTER", o.P.TopicID, o.P.Str, ev)
			accepted++
		}
	}
	if exhaustedBefore && len(newAlloc) > 0 {
		// every id is in use: a further allocation must be refused, not served
		if accepted > 0 {
			// handout() has already reported the reuse, if any; if the id was
			// not reported it is out of range/predefined which is reported too.
		} else {
			m.refused++
		}
	}
	// "never later denotes a different topic name": what the gateway itself takes an id to denote (its table of
	// registered topics) must stay what was handed out, and hold no id that was never handed out
	for id, name := range g.H.VRegistered() {
		old, ok := m.assigned[id]
		switch {
		case ok && old != name:
			vs = append(vs, explore.Violation{Sig: "id-denotes-another-name-in-the-gateway", Detail: fmt.Sprintf("topic id %d was handed out for %q, the gateway now takes it to denote %q (event %s)", id, old, name, gw.Label(ev))})
		case !ok && (id < m.lo || id > m.hi):
			vs = append(vs, explore.Violation{Sig: "gateway-registers-id-out-of-range", Detail: fmt.Sprintf("the gateway's table holds topic id %d (%q) outside %d..%d, never handed out (event %s)", id, name, m.lo, m.hi, gw.Label(ev))})
		}
	}
	m.ended = g.Returned
	return vs
}

func (m *c04mon) has(name string) bool { return m.names[name] }

func (m *c04mon) Key() string {
	return fmt.Sprintf("assigned=%s subs=%s ended=%t", mapKey(m.assigned), mapKey(m.subNames), m.ended)
}
func (m *c04mon) Class() string {
	return fmt.Sprintf("used=%d/%d refused>0=%t", len(m.assigned), m.usable(), m.refused > 0)
}
func (m *c04mon) Next(g *gw.GW) []string {
	if g.Returned {
		return nil
	}
	return m.alphabet
}

func c04alphabet(names int) []string {
	var a []string
	for i := 1; i <= names; i++ {
		n := fmt.Sprintf("t/%d", i)
		a = append(a, gw.EvC("REGISTER "+n, gw.Register(0, uint16(10+i), n)))
	}
	for i := 1; i <= 3; i++ {
		n := fmt.Sprintf("s/%d", i)
		mid := uint16(20 + i)
		a = append(a, gw.Ev("SUBSCRIBE "+n+" + SUBACK", gw.EvC("", gw.SubscribeName(mid, n, 0, false)), gw.EvB("", refmqtt.EncSuback(mid, 0))))
	}
	a = append(a, gw.Ev("SUBSCRIBE w/# + SUBACK", gw.EvC("", gw.SubscribeName(30, "w/#", 0, false)), gw.EvB("", refmqtt.EncSuback(30, 0))))
	for i := 1; i <= 3; i++ {
		n := fmt.Sprintf("w/%d", i)
		mid := uint16(40 + i)
		// broker publish on a new name under the wildcard; the client accepts the REGISTER
		a = append(a, gw.Ev("broker PUBLISH "+n+" q1 + REGACK + PUBACK", gw.EvB("", refmqtt.EncPublish(n, 1, false, false, mid, []byte("x"))),
			gw.EvC("", gw.Regack(0, mid, 0)), gw.EvC("", gw.Puback(0, mid, 0))))
	}
	// names that are predefined for the client in most of the configurations: registering or subscribing to them
	// by name is legal, and the id handed out for them must not be a predefined one either
	a = append(a, gw.EvC("REGISTER p/2", gw.Register(0, 51, "p/2")),
		gw.Ev("SUBSCRIBE p/3 + SUBACK", gw.EvC("", gw.SubscribeName(52, "p/3", 0, false)), gw.EvB("", refmqtt.EncSuback(52, 0))))
	a = append(a, gw.EvB("broker PUBLISH w/9 q0 (no REGACK)", refmqtt.EncPublish("w/9", 0, false, false, 0, []byte("x"))))
	// a sleep cycle ended by a CONNECT that names another client id: no new session starts, the ids predefined for
	// the session's client stay out of bounds
	a = append(a, gw.Ev("sleep, then wake-up CONNECT naming another client id", gw.EvC("", gw.Disconnect(60)), gw.EvC("", gw.Connect("zz", 30, false, false))))
	return a
}

func c04specs() []gw.Spec {
	var out []gw.Spec
	alpha := c04alphabet(4)
	// which ids of the small range 1..4 are predefined (client-specific and "*" entries, adjacent runs included)
	for _, pre := range []topics.PredefinedTopics{
		{"c1": {2: "p/2"}},
		{"c1": {2: "p/2"}, "*": {3: "p/3"}},
		{"*": {1: "p/1", 2: "p/2"}},
		{"c1": {3: "p/3", 4: "p/4"}, "c2": {1: "q/1"}},
		{"*": {1: "p/1", 2: "p/2", 3: "p/3", 4: "p/4"}},
	} {
		pre := pre
		cfg := gw.DefaultConfig()
		cfg.Predefined = pre
		cfg.TopicIDMin, cfg.TopicIDMax = 1, 4
		out = append(out, gw.Spec{Name: "range1..4:" + fmt.Sprint(pre), Cfg: cfg, Setup: connectSetup("c1", 30), NewMonitor: func() gw.Monitor {
			return &c04mon{cfg: pre, lo: 1, hi: 4, assigned: map[uint16]string{}, subNames: map[uint16]string{}, alphabet: alpha}
		}})
	}
	return out
}

// full range on the unmodified handler: one long history
func c04fullRange(t *testing.T) (int, []explore.Violation, string) {
	var vs []explore.Violation
	n := 0
	herr := ""
	res, _ := explore.Bubble(t, nil, func(s *vsched.Sched) (string, []explore.Violation) {
		cfg := gw.DefaultConfig()
		cfg.Predefined = topics.PredefinedTopics{"c1": {2: "p/2", 8: "p/8"}, "*": {7: "p/7", 9: "p/9", 0xFFFD: "p/top1", 0xFFFE: "p/top"}}
		s.MaxSteps = 50000000
		g := gw.New(s, cfg)
		for _, ev := range connectSetup("c1", 30) {
			g.Apply(ev)
		}
		g.TakeSN()
		m := &c04mon{cfg: cfg.Predefined, lo: 1, hi: 0xFFFE, assigned: map[uint16]string{}, subNames: map[uint16]string{}}
		// the real sequence from its real start (ids 1, 3, ...), then fast-forwarded to 0xFF00 (every allocation path
		// searches the registration table, so 65 000 registrations are quadratic), through the real upper bound 0xFFFE
		// and 6 allocations beyond exhaustion
		const firstPart, skipTo = 400, 0xFF00
		wantSecond := 0
		for id := skipTo; id <= 0xFFFE; id++ {
			if _, pre := refPredef(cfg.Predefined, "c1", uint16(id)); !pre {
				wantSecond++
			}
		}
		total := firstPart + wantSecond + 6
		refusedAfter := 0
		for i := 0; i < total && !g.Returned; i++ {
			if i == firstPart {
				g.H.VTopicIDSkipTo(skipTo)
			}
			name := fmt.Sprintf("n/%d", i)
			var ev string
			switch {
			case i >= total-9 || i%7 == 3:
				ev = gw.EvC("REGISTER "+name, gw.Register(0, uint16(1+i%60000), name))
			default:
				mid := uint16(1 + i%60000)
				ev = gw.Ev("SUBSCRIBE "+name+" + SUBACK", gw.EvC("", gw.SubscribeName(mid, name, 0, false)), gw.EvB("", refmqtt.EncSuback(mid, 0)))
			}
			g.Apply(ev)
			n++
			before := len(m.assigned)
			v := m.After(g, ev, g.TakeSN(), g.TakeMQ(), false)
			if len(v) > 0 && len(vs) < 5 {
				for k := range v {
					v[k].History = []string{fmt.Sprintf("%d registrations", i), gw.Label(ev)}
				}
				vs = append(vs, v...)
			}
			if i >= firstPart+wantSecond && len(m.assigned) == before {
				refusedAfter++
			}
		}
		if len(m.assigned) != firstPart+wantSecond && len(vs) == 0 {
			vs = append(vs, explore.Violation{Sig: "full-range:ids-not-all-usable", Detail: fmt.Sprintf("%d distinct ids handed out, %d usable on the way (first %d from the start, then %#x..0xFFFE)", len(m.assigned), firstPart+wantSecond, firstPart, skipTo)})
		}
		if refusedAfter != 6 && len(vs) == 0 && !g.Returned {
			vs = append(vs, explore.Violation{Sig: "full-range:allocation-after-exhaustion", Detail: fmt.Sprintf("%d of the 6 allocations after the id space was used up were refused", refusedAfter)})
		}
		g.Finish()
		return "", nil
	})
	herr = res.HarnessErr
	if len(res.Panics) > 0 {
		vs = append(vs, explore.Violation{Sig: "panic", Detail: res.Panics[0]})
	}
	return n, vs, herr
}

func TestC04(t *testing.T) {
	specs := c04specs()
	if explore.IsWorker() {
		gw.ServeBFS(t, specs)
		return
	}
	rep := explore.NewReport("C04", "model_checking")
	depth := 6
	if explore.Tier() == "thorough" {
		depth = 8
	}
	gw.BFSCheck(rep, specs, gw.BFSOpts{Test: "TestC04", Depth: depth}, 150, 900)
	n, vs, herr := c04fullRange(t)
	if herr != "" {
		rep.HarnessErr = herr
	}
	for i := range vs {
		vs[i].Property = "C04"
		vs[i].Scenario = "full-range"
	}
	rep.Add(vs...)
	rep.Coverage["full_range_history_events"] = n
	rep.Coverage["rule"] = "BFS over all orders of the three allocation paths (REGISTER of 4 names, SUBSCRIBE of 3 plain names, broker PUBLISH on 4 new names under a wildcard) on a handler whose topic id sequence is 1..4 with id 2 predefined for the client, to depth 6 (thorough 8), i.e. through and beyond exhaustion; monitor = id->name forever; plus one history on the unmodified handler with the real id sequence: 400 allocations from its real start, then the sequence fast-forwarded to 0xFF00 and allocations through the real upper bound 0xFFFE and 6 beyond exhaustion (predefined ids at both ends)"
	rep.Assumptions = []string{"default schedule", "small-range handler built through the overlay-only VSetTopicIDRange export"}
	rep.Finish()
}
