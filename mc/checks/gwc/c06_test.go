package gwc

import (
	"fmt"
	"strings"
	"testing"
	"time"

	"github.com/energomonitor/bisquitt/topics"

	"verif/mc/explore"
	"verif/mc/harness/gw"
	"verif/mc/ref/refmqtt"
	"verif/mc/ref/refsn"
	"verif/mc/vsched"
)

// ---- C06 (gateway side): exchanges started by each side never interfere ---------
//
// Two scripted exchanges, one started by the client and one by the broker, use
// the same message id.  Every shuffle of their steps (plus retry/timeout timers
// at every position) is explored; each step must produce exactly the output it
// produces when its exchange runs alone.

type xstep struct {
	ev   string
	want string // expected output of this step: "sn:TYPE" / "mq:TYPE" (with the shared msg id), "" none
}

type exchange6 struct {
	name  string
	steps []xstep
}

// c06exchanges returns the exchanges for the shared message id m.  For m = 0xFFFF the broker-started
// exchange is a QoS 0 PUBLISH on a new topic: its REGISTER carries a message id the gateway picks
// itself (the highest free one), so the client-started exchanges use that id.
func c06exchanges(m uint16) (clientX, brokerX []exchange6) {
	clientX = []exchange6{
		{"client PUBLISH q1", []xstep{
			{gw.EvC("C:PUBLISH(q1,predef 1)", gw.Publish(1, 1, m, 1, false, false, "x")), "mq:PUBLISH"},
			{gw.EvB("B:PUBACK", refmqtt.EncPuback(m)), "sn:PUBACK"}}},
		{"client SUBSCRIBE", []xstep{
			{gw.EvC("C:SUBSCRIBE(s/1)", gw.SubscribeName(m, "s/1", 1, false)), "mq:SUBSCRIBE"},
			{gw.EvB("B:SUBACK", refmqtt.EncSuback(m, 1)), "sn:SUBACK"}}},
		{"client PUBLISH q2", []xstep{
			{gw.EvC("C:PUBLISH(q2,predef 1)", gw.Publish(1, 1, m, 2, false, false, "x")), "mq:PUBLISH"},
			{gw.EvB("B:PUBREC", refmqtt.EncPubrec(m)), "sn:PUBREC"},
			{gw.EvC("C:PUBREL", gw.Pubrel(m)), "mq:PUBREL"},
			{gw.EvB("B:PUBCOMP", refmqtt.EncPubcomp(m)), "sn:PUBCOMP"}}},
		{"client REGISTER", []xstep{
			{gw.EvC("C:REGISTER(r/9)", gw.Register(0, m, "r/9")), "sn:REGACK"}}},
	}
	brokerX = []exchange6{
		{"broker PUBLISH q1", []xstep{
			{gw.EvB("B:PUBLISH(p/1,q1)", refmqtt.EncPublish("p/1", 1, false, false, m, []byte("b"))), "sn:PUBLISH"},
			{gw.EvC("C:PUBACK", gw.Puback(1, m, 0)), "mq:PUBACK"}}},
		{"broker PUBLISH q2", []xstep{
			{gw.EvB("B:PUBLISH(p/1,q2)", refmqtt.EncPublish("p/1", 2, false, false, m, []byte("b"))), "sn:PUBLISH"},
			{gw.EvC("C:PUBREC", gw.Pubrec(m)), "mq:PUBREC"},
			{gw.EvB("B:PUBREL", refmqtt.EncPubrel(m)), "sn:PUBREL"},
			{gw.EvC("C:PUBCOMP", gw.Pubcomp(m)), "mq:PUBCOMP"}}},
		{"broker PUBLISH q1 on a new topic", []xstep{
			{gw.EvB("B:PUBLISH(w/n,q1)", refmqtt.EncPublish("w/n", 1, false, false, m, []byte("b"))), "sn:REGISTER"},
			{gw.EvC("C:REGACK", gw.Regack(2, m, 0)), "sn:PUBLISH"},
			{gw.EvC("C:PUBACK", gw.Puback(2, m, 0)), "mq:PUBACK"}}},
	}
	if m == 0xFFFF {
		brokerX = []exchange6{
			{"broker PUBLISH q0 on a new topic", []xstep{
				{gw.EvB("B:PUBLISH(w/n,q0)", refmqtt.EncPublish("w/n", 0, false, false, 0, []byte("b"))), "sn:REGISTER"},
				{gw.EvC("C:REGACK", gw.Regack(2, m, 0)), "sn:PUBLISH"}}},
		}
	}
	return
}

type c06mon struct {
	mid      uint16
	cx, bx   exchange6
	ci, bi   int
	timers   int
	maxTimer int
	broken   map[string]bool // exchanges already reported as disturbed (or expired by themselves)
	clientTx bool            // the client-started exchange had a transaction in the store after the previous event
	// superseded family: an earlier, abandoned exchange with the same message id is part of the setup; its own
	// expiry must not take the state of the exchange that superseded it along
	superseded string
	txPrev     string // the gateway's client-side transaction under the shared id after the previous event
	ownState   bool   // the exchange under observation has stored a transaction of its own
	cxStart    time.Duration
	retryDelay time.Duration
}

func (m *c06mon) After(g *gw.GW, ev string, sn []gw.SNOut, mq []gw.MQOut, setup bool) []explore.Violation {
	clientPending := false
	txNow := ""
	for _, tx := range g.H.VTransactions() {
		if strings.HasPrefix(tx, fmt.Sprintf("id%d=", m.mid)) {
			clientPending = true
			txNow = tx
		}
	}
	defer func() { m.txPrev = txNow }()
	if setup {
		return nil
	}
	defer func() { m.clientTx = clientPending }()
	now := g.S.Now().Sub(vsched.Epoch)
	if strings.HasSuffix(ev, "T:next") {
		m.timers++
		if m.superseded != "" && m.ownState && m.clientTx && !clientPending && m.ci > 0 && m.ci < len(m.cx.steps) && now-m.cxStart < m.retryDelay && !m.broken[m.cx.name] {
			m.broken[m.cx.name] = true
			return []explore.Violation{{Sig: fmt.Sprintf("client-started exchange deleted by the expiry of a superseded one:%s:superseded=%s", m.cx.name, m.superseded),
				Detail: fmt.Sprintf("the %s exchange (msg id %d) began at %v and is waiting for the broker; at %v the timer of the earlier, abandoned %s with the same msg id expired and the gateway's state of the new exchange is gone (its own timeout is %v): the broker's answer will be dropped", m.cx.name, m.mid, m.cxStart, now, m.superseded, m.retryDelay)}}
		}
		if m.clientTx && !clientPending {
			// the gateway's own bookkeeping of the client-started exchange expired (RetryDelay):
			// a later broker answer is not demanded, with or without the other exchange
			m.broken[m.cx.name] = true
		}
		return nil // retransmissions by the timers are not judged here (C16)
	}
	var x *exchange6
	var idx *int
	who := ""
	switch {
	case m.ci < len(m.cx.steps) && m.cx.steps[m.ci].ev == ev:
		x, idx, who = &m.cx, &m.ci, "client-started"
	case m.bi < len(m.bx.steps) && m.bx.steps[m.bi].ev == ev:
		x, idx, who = &m.bx, &m.bi, "broker-started"
	default:
		return nil
	}
	want := x.steps[*idx].want
	if who == "client-started" && *idx == 0 {
		m.cxStart = now
		// some requests (PUBLISH QoS 2) are passed on without any gateway state: then there is nothing to lose
		m.ownState = txNow != "" && (txNow != m.txPrev || strings.HasPrefix(m.superseded, "first transmission"))
	}
	*idx++
	if m.broken[x.name] || want == "" {
		return nil // (a stray datagram of the other side: nothing is expected of it, it only must not disturb)
	}
	got := false
	for _, o := range sn {
		if o.Err == nil && "sn:"+o.P.Name() == want && (o.P.MsgID == m.mid || o.P.Type == refsn.PUBLISH) {
			got = true
		}
	}
	for _, o := range mq {
		if "mq:"+o.P.Name() == want && o.P.ID == m.mid {
			got = true
		}
	}
	if !got {
		m.broken[x.name] = true
		other := m.bx.name
		if who == "broker-started" {
			other = m.cx.name
		}
		var outs []string
		for _, o := range sn {
			outs = append(outs, "sn:"+o.String())
		}
		for _, o := range mq {
			outs = append(outs, "mq:"+o.P.String())
		}
		return []explore.Violation{{Sig: fmt.Sprintf("%s exchange disturbed:%s:by=%s:at=%s:timers=%t", who, x.name, other, gw.Label(ev), m.timers > 0),
			Detail: fmt.Sprintf("%s step %s of the %s exchange (msg id %d) produced %v instead of %s while an exchange %q with the same msg id is in the history", gw.Label(ev), gw.Label(ev), who, m.mid, outs, want, other)}}
	}
	return nil
}

func (m *c06mon) Key() string {
	return fmt.Sprintf("ci=%d bi=%d t=%d broken=%v ctx=%t", m.ci, m.bi, m.timers, m.broken, m.clientTx)
}
func (m *c06mon) Class() string {
	return fmt.Sprintf("done=%t", m.ci == len(m.cx.steps) && m.bi == len(m.bx.steps))
}
func (m *c06mon) Next(g *gw.GW) []string {
	if g.Returned || g.H.VEnding() {
		return nil
	}
	var a []string
	if m.ci < len(m.cx.steps) {
		a = append(a, m.cx.steps[m.ci].ev)
	}
	if m.bi < len(m.bx.steps) {
		a = append(a, m.bx.steps[m.bi].ev)
	}
	if len(a) > 0 && m.timers < m.maxTimer && len(g.S.PendingTimers()) > 0 {
		a = append(a, gw.EvTimer)
	}
	return a
}

func c06specs() []gw.Spec {
	cfg := gw.DefaultConfig()
	cfg.RetryDelay, cfg.RetryCount = 2*time.Second, 3
	cfg.Predefined = topics.PredefinedTopics{"*": {1: "p/1"}}
	setup := append(connectSetup("c1", 30), gw.Ev("SUBSCRIBE w/# + SUBACK", gw.EvC("", gw.SubscribeName(9, "w/#", 1, false)), gw.EvB("", refmqtt.EncSuback(9, 1))))
	maxT := 2
	if explore.Tier() == "thorough" {
		maxT = 3
	}
	var out []gw.Spec
	for _, mid := range []uint16{1, 0xFFFF} {
		cxs, bxs := c06exchanges(mid)
		for _, cx := range cxs {
			for _, bx := range bxs {
				cx, bx, mid := cx, bx, mid
				out = append(out, gw.Spec{Name: fmt.Sprintf("%s || %s (msg id %d)", cx.name, bx.name, mid), Cfg: cfg, Setup: setup, NewMonitor: func() gw.Monitor {
					return &c06mon{mid: mid, cx: cx, bx: bx, maxTimer: maxT, broken: map[string]bool{}}
				}})
			}
		}
	}
	// superseded family: an abandoned client exchange with the same id (another kind of request, or the first
	// transmission of the same request), one second before the exchange under observation begins
	for _, mid := range []uint16{1} {
		cxs, _ := c06exchanges(mid)
		for _, cx := range cxs {
			if cx.name == "client REGISTER" {
				continue // answered by the gateway at once: nothing is pending
			}
			type old struct{ name, ev string }
			olds := []old{{"SUBSCRIBE(s/0)", gw.EvC("earlier SUBSCRIBE(s/0), never answered", gw.SubscribeName(mid, "s/0", 1, false))}}
			if cx.name == "client SUBSCRIBE" {
				olds = []old{{"PUBLISH q1", gw.EvC("earlier PUBLISH(q1), never answered", gw.Publish(1, 1, mid, 1, false, false, "o"))}}
			}
			olds = append(olds, old{"first transmission of the same request", strings.Replace(cx.steps[0].ev, "C:", "earlier C:", 1)})
			for _, o := range olds {
				cx, o, mid := cx, o, mid
				st := append(append([]string{}, setup...), o.ev, gw.EvAdvance(time.Second))
				out = append(out, gw.Spec{Name: fmt.Sprintf("%s superseding %s (msg id %d)", cx.name, o.name, mid), Cfg: cfg, Setup: st, NewMonitor: func() gw.Monitor {
					return &c06mon{mid: mid, cx: cx, bx: exchange6{name: "none"}, maxTimer: maxT, broken: map[string]bool{}, superseded: o.name, retryDelay: cfg.RetryDelay}
				}})
			}
		}
	}
	// stale-acknowledgement family: a broker-started exchange with id m has finished; the client's acknowledgement
	// of it arrives once more (it had answered a retransmission as well) at any point of a NEW broker-started
	// exchange of the other QoS under the same id
	{
		mid := uint16(1)
		_, bxs := c06exchanges(mid)
		var q1x, q2x exchange6
		for _, bx := range bxs {
			switch bx.name {
			case "broker PUBLISH q1":
				q1x = bx
			case "broker PUBLISH q2":
				q2x = bx
			}
		}
		evs := func(x exchange6) []string {
			var out []string
			for _, st := range x.steps {
				out = append(out, st.ev)
			}
			return out
		}
		type stale struct {
			name  string
			ev    string
			old   exchange6
			fresh exchange6
		}
		for _, k := range []stale{
			{"PUBACK of the finished QoS 1 exchange again", gw.EvC("C:PUBACK again", gw.Puback(1, mid, 0)), q1x, q2x},
			{"PUBCOMP of the finished QoS 2 exchange again", gw.EvC("C:PUBCOMP again", gw.Pubcomp(mid)), q2x, q1x},
			{"PUBREC of the finished QoS 2 exchange again", gw.EvC("C:PUBREC again", gw.Pubrec(mid)), q2x, q1x},
		} {
			k := k
			st := append(append([]string{}, setup...), evs(k.old)...)
			out = append(out, gw.Spec{Name: fmt.Sprintf("%s || %s (msg id %d)", k.name, k.fresh.name, mid), Cfg: cfg, Setup: st, NewMonitor: func() gw.Monitor {
				return &c06mon{mid: mid, cx: exchange6{name: k.name, steps: []xstep{{k.ev, ""}}}, bx: k.fresh, maxTimer: maxT, broken: map[string]bool{}}
			}})
		}
	}
	return out
}

func TestC06(t *testing.T) {
	specs := c06specs()
	if explore.IsWorker() {
		gw.ServeBFS(t, specs)
		return
	}
	rep := explore.NewReport("C06", "model_checking")
	gw.BFSCheck(rep, specs, gw.BFSOpts{Test: "TestC06"}, 240, 1500)
	rep.Coverage["rule"] = "gateway side: (stale-acknowledgement family: the final or intermediate acknowledgement of a finished broker-started exchange arrives again at any point of a new broker-started exchange of the other QoS with the same id) (superseded family: an abandoned client exchange with the same id - another request or the first transmission of the same one - 1 s before the observed exchange; its expiry must not remove the newer state) for each pair (client-started exchange in {PUBLISH q1, SUBSCRIBE, PUBLISH q2, REGISTER}) x (broker-started exchange in {PUBLISH q1, PUBLISH q2, PUBLISH q1 on a new topic} with message id 1, and PUBLISH q0 on a new topic whose REGISTER uses the gateway-chosen id 0xFFFF) with the same message id: BFS over every shuffle of their steps with up to 2 (thorough 3) timer expiries at any position; each step must produce the output it produces when its exchange runs alone (differential expectation: the scripts' own step/response pairs)"
	rep.Assumptions = []string{"default schedule within a step"}
	rep.Finish()
}
