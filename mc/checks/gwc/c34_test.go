package gwc

import (
	"fmt"
	"testing"
	"time"

	"github.com/energomonitor/bisquitt/topics"

	"verif/mc/explore"
	"verif/mc/harness/gw"
	"verif/mc/ref/refmqtt"
	"verif/mc/ref/refsn"
	"verif/mc/vsched"
)

// ---- C34: sessions of vanished clients are reaped ----------------------------------

const c34K = 4
const c34Vanish = "client vanishes|T:60000000000"

type c34mon struct {
	dur      time.Duration
	view     string // disconnected connecting active asleep
	tConnect time.Duration
	sleepEnd time.Duration
	depth    int
	maxDepth int
	vanished bool
	pauses   int
	alphabet []string
}

func (m *c34mon) After(g *gw.GW, ev string, sn []gw.SNOut, mq []gw.MQOut, setup bool) []explore.Violation {
	now := g.S.Now().Sub(vsched.Epoch)
	if ev == c34Vanish {
		m.vanished = true
		t0 := now - 60*time.Second
		var bound time.Duration
		var why string
		k15 := time.Duration(c34K) * time.Second * 3 / 2
		slack := 200 * time.Millisecond
		switch m.view {
		case "disconnected":
			bound, why = 5*time.Second+slack, "no CONNECT: the broker drops the connection after 5 s"
		case "connecting":
			bound, why = m.tConnect+5*time.Second+slack, "connect timeout"
			if b := 5*time.Second + slack; b > bound {
				bound = b
			}
		case "active":
			bound, why = t0+k15+slack, "1.5 x keep-alive after the last packet"
		case "asleep":
			base := t0
			if m.sleepEnd > base {
				base = m.sleepEnd
			}
			bound, why = base+k15+time.Duration(c34K)*time.Second+slack, "announced sleep duration + 1.5 x keep-alive (+ one keep-alive)"
		}
		if !g.Returned {
			return []explore.Violation{{Sig: "vanished-client-session-survives:" + m.view, Detail: fmt.Sprintf("client silent since %v in view %s: session still alive 60 s later (expected end by %v: %s)", t0, m.view, bound, why)}}
		}
		if g.RetAt > bound {
			return []explore.Violation{{Sig: "vanished-client-session-ends-late:" + m.view, Detail: fmt.Sprintf("client silent since %v in view %s: session ended at %v, bound %v (%s)", t0, m.view, g.RetAt, bound, why)}}
		}
		return nil
	}
	m.depth++
	for _, st := range steps(ev) {
		if st.kind == "T" {
			m.pauses++
		}
		if st.kind != "C" {
			continue
		}
		p := st.sn
		switch {
		case p.Type == refsn.CONNECT && p.Duration != 0 && (m.view == "disconnected" || m.view == "connecting"):
			m.view, m.tConnect = "connecting", now
		case p.Type == refsn.CONNECT && m.view == "asleep":
			m.view = "active"
		case p.Type == refsn.DISCONNECT && p.Duration > 0 && (m.view == "active" || m.view == "asleep"):
			m.view, m.sleepEnd = "asleep", now+time.Duration(p.Duration)*time.Second
		case p.Type == refsn.PINGREQ && m.view == "asleep":
			// asleep again for the announced duration
			m.sleepEnd = now + (m.sleepEnd - m.tSleepFrom())
		}
	}
	for _, o := range sn {
		if o.Err == nil && o.P.Type == refsn.CONNACK && o.P.RC == 0 && m.view == "connecting" {
			m.view = "active"
		}
	}
	if m.view == "asleep" {
		m.lastSleepDur(ev, now)
	}
	return nil
}

// bookkeeping of the announced duration (for the "asleep again" rule)
func (m *c34mon) tSleepFrom() time.Duration { return m.sleepEnd - m.dur }
func (m *c34mon) lastSleepDur(ev string, now time.Duration) {
	for _, st := range steps(ev) {
		if st.kind == "C" && st.sn.Type == refsn.DISCONNECT && st.sn.Duration > 0 {
			m.dur = time.Duration(st.sn.Duration) * time.Second
		}
	}
}

func (m *c34mon) Key() string {
	return fmt.Sprintf("view=%s tc=%v se=%v d=%d v=%t p=%d", m.view, m.tConnect, m.sleepEnd, m.depth, m.vanished, m.pauses)
}
func (m *c34mon) Class() string {
	if m.vanished {
		return "vanished@" + m.view
	}
	return m.view
}
func (m *c34mon) Next(g *gw.GW) []string {
	if g.Returned || g.H.VEnding() || m.vanished {
		return nil
	}
	a := []string{c34Vanish}
	if m.depth >= m.maxDepth {
		return a
	}
	a = append(a, m.alphabet...)
	if m.pauses < 2 {
		a = append(a, gw.EvAdvance(2*time.Second))
	}
	return a
}

func c34specs() []gw.Spec {
	depth := 4
	if explore.Tier() == "thorough" {
		depth = 6
	}
	alpha := []string{
		gw.EvC("CONNECT(c1,4)", gw.Connect("c1", c34K, false, true)),
		gw.EvC("CONNECT(c1,4,will)", gw.Connect("c1", c34K, true, true)),
		// keep-alive 0 would switch the broker's timeout off: such a CONNECT must not reach the broker in any flow
		gw.EvC("CONNECT(c1,0)", gw.Connect("c1", 0, false, true)),
		gw.EvC("CONNECT(c1,0,will)", gw.Connect("c1", 0, true, true)),
		gw.EvC("AUTH(PLAIN u/p)", gw.AuthPlain("u", "p")),
		gw.EvC("WILLTOPIC(w)", gw.WillTopic("w", 1, false)),
		gw.EvC("WILLMSG(m)", gw.WillMsg("m")),
		gw.EvC("REGISTER r/1", gw.Register(0, 7, "r/1")),
		gw.EvC("PUBLISH(q1,predef 1)", gw.Publish(1, 1, 3, 1, false, false, "x")),
		gw.EvC("PINGREQ", gw.Pingreq("c1")),
		gw.EvC("DISCONNECT(2)", gw.Disconnect(2)),
		gw.EvC("DISCONNECT(10)", gw.Disconnect(10)),
		gw.EvC("PUBLISH(q-1,short)", gw.Publish(2, gw.ShortID("xy"), 0, 3, false, false, "x")),
	}
	var out []gw.Spec
	for _, auth := range []bool{false, true} {
		auth := auth
		cfg := gw.DefaultConfig()
		cfg.Auth = auth
		cfg.Predefined = topics.PredefinedTopics{"*": {1: "p/1"}}
		cfg.EnforceKeepAlive = true
		cfg.NoConnectTimeout = 5 * time.Second
		cfg.AutoBroker = func(p refmqtt.Pkt) [][]byte {
			switch p.Type {
			case refmqtt.CONNECT:
				return [][]byte{refmqtt.EncConnack(0)}
			case refmqtt.PINGREQ:
				return [][]byte{refmqtt.EncPingresp()}
			case refmqtt.PUBLISH:
				if p.QoS == 1 {
					return [][]byte{refmqtt.EncPuback(p.ID)}
				}
			}
			return nil
		}
		out = append(out, gw.Spec{Name: fmt.Sprintf("auth=%t", auth), Cfg: cfg, NoSettle: true, Livelock: true, NewMonitor: func() gw.Monitor {
			return &c34mon{view: "disconnected", maxDepth: depth, alphabet: alpha}
		}})
	}
	return out
}

func TestC34(t *testing.T) {
	specs := c34specs()
	if explore.IsWorker() {
		gw.ServeBFS(t, specs)
		return
	}
	rep := explore.NewReport("C34", "model_checking")
	gw.BFSCheck(rep, specs, gw.BFSOpts{Test: "TestC34"}, 240, 1500)
	rep.Coverage["rule"] = "BFS (depth 4, thorough 6; auth off/on) over CONNECT{will,no will} x keep-alive{4 s, 0}/AUTH/WILLTOPIC/WILLMSG/REGISTER/PUBLISH/PINGREQ/DISCONNECT(2|10)/2 s pauses against a broker model that answers at once, enforces the MQTT keep-alive (4 s, closes after 6 s of silence) and drops connections without CONNECT after 5 s; in every reached state the client vanishes and 60 s of virtual time pass: the session must have ended by the connect timeout (before connecting), 1.5 x keep-alive (active) or announced sleep end + 1.5 x keep-alive + one keep-alive (asleep), plus 200 ms of polls"
	rep.Assumptions = []string{"default schedule; virtual time", "the broker assumption is part of the property"}
	rep.Finish()
}
