package gwc

import (
	"fmt"
	"testing"
	"time"

	"github.com/energomonitor/bisquitt/util"

	"verif/mc/explore"
	"verif/mc/harness/gw"
	"verif/mc/ref/refmqtt"
	"verif/mc/ref/refsn"
)

// ---- C07: no active session without a broker-accepted CONNECT --------------------

type c07mon struct {
	outstanding    int // MQTT CONNECTs the broker has not answered yet
	auth           bool
	connectSent    bool
	brokerAccepted bool
	ended          bool
	alphabet       []string
}

func c07alphabet() []string {
	var a []string
	for name, raw := range gw.OneOfEachType() {
		switch name {
		case "CONNECT", "AUTH", "PUBLISH", "DISCONNECT":
			continue
		}
		a = append(a, gw.EvC(name, raw))
	}
	a = append(a,
		gw.EvC("CONNECT(c1,30)", gw.Connect("c1", 30, false, true)),
		gw.EvC("CONNECT(c1,30,will)", gw.Connect("c1", 30, true, true)),
		gw.EvC("CONNECT(c1,0)", gw.Connect("c1", 0, false, true)),
		gw.EvC("DISCONNECT(0)", gw.Disconnect(0)),
		// the optional Duration field present with value 0: a plain DISCONNECT all the same
		gw.EvC("DISCONNECT(duration field 0)", gw.DisconnectField(0)),
		gw.EvC("DISCONNECT(5)", gw.Disconnect(5)),
		gw.EvC("AUTH(PLAIN u/p)", gw.AuthPlain("u", "p")),
		gw.EvC("AUTH(PLAIN malformed)", gw.AuthRaw("PLAIN", []byte("up"))),
		gw.EvC("AUTH(X)", gw.AuthRaw("X", []byte("zz"))),
		gw.EvC("PUBLISH(q0,reg 1)", gw.Publish(0, 1, 0, 0, false, false, "x")),
		gw.EvC("PUBLISH(q1,reg 1)", gw.Publish(0, 1, 1, 1, false, false, "x")),
		gw.EvC("PUBLISH(q-1,short ab)", gw.Publish(2, gw.ShortID("ab"), 0, 3, false, false, "x")),
		gw.EvC("PUBLISH(q-1,predef 1)", gw.Publish(1, 1, 0, 3, false, false, "x")),
		gw.EvC("PUBLISH(q-1,predef 9)", gw.Publish(1, 9, 0, 3, false, false, "x")),
		gw.EvC("PUBLISH(q-1,reg 1)", gw.Publish(0, 1, 0, 3, false, false, "x")),
		gw.EvC("PUBLISH(q0,predef 1)", gw.Publish(1, 1, 0, 0, false, false, "x")),
		gw.EvB("CONNACK(0)", refmqtt.EncConnack(0)),
		gw.EvB("CONNACK(5)", refmqtt.EncConnack(5)),
		gw.EvB("CONNACK(2)", refmqtt.EncConnack(2)),
		gw.EvB("CONNACK(6 reserved)", refmqtt.EncConnack(6)),
	)
	sortStrings(a)
	return a
}

func (m *c07mon) After(g *gw.GW, ev string, sn []gw.SNOut, mq []gw.MQOut, setup bool) []explore.Violation {
	var vs []explore.Violation
	cp, isClient := clientPkt(ev)
	before := "accepted"
	if !m.brokerAccepted {
		before = "not-accepted"
	}
	wasAccepted := m.brokerAccepted
	if bp, ok := brokerPkt(ev); ok && bp.Type == refmqtt.CONNACK {
		m.outstanding--
		if bp.RC == 0 {
			m.brokerAccepted = true
			wasAccepted = true // the reply to this very event may be CONNACK(accepted)
		}
	}
	qosM1 := isClient && cp.Type == refsn.PUBLISH && cp.QoS == 3 && (cp.TIT == 1 || cp.TIT == 2) && !m.auth
	for _, o := range mq {
		if o.P.Type == refmqtt.CONNECT {
			m.connectSent = true
			m.outstanding++
			continue
		}
		if wasAccepted {
			continue
		}
		if qosM1 && o.P.Type == refmqtt.PUBLISH {
			continue
		}
		on := onName(cp, isClient)
		vs = append(vs, explore.Violation{Sig: fmt.Sprintf("forwarded-before-accepted-connect:%s:on=%s", o.P.Name(), on),
			Detail: fmt.Sprintf("%s written to the broker although no MQTT CONNECT of this session has been accepted (event %s)", o.P, gw.Label(ev))})
	}
	for _, o := range sn {
		if o.Err == nil && o.P.Type == refsn.CONNACK && o.P.RC == 0 && !wasAccepted {
			vs = append(vs, explore.Violation{Sig: "connack-accepted-without-broker-accept:on=" + onName(cp, isClient),
				Detail: fmt.Sprintf("client got CONNACK(accepted) on %s although the broker has not accepted a CONNECT of this session", gw.Label(ev))})
		}
	}
	// before acceptance a packet outside the connect exchange ends the session
	if isClient && before == "not-accepted" && !qosM1 {
		switch cp.Type {
		case refsn.CONNECT, refsn.AUTH, refsn.WILLTOPIC, refsn.WILLMSG:
		default:
			g.S.Advance(250 * time.Millisecond)
			if !g.Returned {
				vs = append(vs, explore.Violation{Sig: "pre-connect-packet-does-not-end-session:" + cp.Name() + durTag(cp),
					Detail: fmt.Sprintf("%s before a successful connect exchange did not end the session (handler state now %s)", gw.Label(ev), g.H.VState())})
			}
		}
	}
	m.ended = g.Returned
	return vs
}

func onName(cp refsn.Pkt, isClient bool) string {
	if isClient {
		return cp.Name()
	}
	return "broker-event"
}

func durTag(p refsn.Pkt) string {
	if p.Type == refsn.DISCONNECT {
		if p.Duration > 0 {
			return "(sleep)"
		}
		return "(plain)"
	}
	return ""
}

func (m *c07mon) Key() string {
	return fmt.Sprintf("sent=%t out=%d acc=%t ended=%t", m.connectSent, m.outstanding, m.brokerAccepted, m.ended)
}
func (m *c07mon) Class() string {
	return fmt.Sprintf("acc=%t ended=%t", m.brokerAccepted, m.ended)
}
func (m *c07mon) Next(g *gw.GW) []string {
	if g.Returned {
		return nil
	}
	if m.outstanding > 0 {
		return m.alphabet
	}
	// a conforming broker sends CONNACK only in answer to a CONNECT
	var a []string
	for _, e := range m.alphabet {
		if _, isB := brokerPkt(e); !isB {
			a = append(a, e)
		}
	}
	return a
}

func c07specs() []gw.Spec {
	alpha := c07alphabet()
	mk := func(auth bool) gw.Spec {
		cfg := gw.DefaultConfig()
		cfg.Auth = auth
		cfg.Predefined = predef1()
		return gw.Spec{Name: fmt.Sprintf("auth=%t", auth), Cfg: cfg, Livelock: true, NewMonitor: func() gw.Monitor { return &c07mon{auth: auth, alphabet: alpha} }}
	}
	return []gw.Spec{mk(false), mk(true)}
}

var _ = util.StateActive

func TestC07(t *testing.T) {
	specs := c07specs()
	if explore.IsWorker() {
		gw.ServeBFS(t, specs)
		return
	}
	rep := explore.NewReport("C07", "model_checking")
	depth := 6
	if explore.Tier() == "thorough" {
		depth = 9
	}
	gw.BFSCheck(rep, specs, gw.BFSOpts{Test: "TestC07", Depth: depth}, 90, 600)
	rep.Coverage["rule"] = "breadth-first search over client/broker event histories of one real gateway session (auth off and on); alphabet = one datagram of every MQTT-SN message type plus CONNECT/DISCONNECT/AUTH/PUBLISH variants and broker CONNACK(0/5); states = distinct (private handler snapshot + pending timers + monitor) keys; each transition replays the history on a fresh handler under the default schedule"
	rep.Assumptions = []string{"default schedule (no preemption within one event)", "time passes only where the oracle asks for the session to end (250 ms of connection polls)"}
	rep.Finish()
}
