package gwc

import (
	"fmt"
	"strings"
	"testing"

	"github.com/energomonitor/bisquitt/topics"

	"verif/mc/explore"
	"verif/mc/harness/gw"
	"verif/mc/ref/refmqtt"
	"verif/mc/ref/refsn"
)

// ---- C02: broker PUBLISH reaches the client under a topic id it can resolve ----------

type bpub struct {
	topic   string
	qos     byte
	retain  bool
	payload string
	done    bool // delivered to the client
}

type c02mon struct {
	cfg       topics.PredefinedTopics
	reg       map[uint16]string // ids the client knows: own REGACKs, SUBACKs, accepted gateway REGISTERs
	regName   string
	subNames  map[uint16]string
	pending   map[uint16]refsn.Pkt // gateway REGISTERs not yet answered, by msg id
	pub       *bpub                // the broker PUBLISH under observation
	hist      int
	maxHist   int
	timers    int
	histAlpha []string
	pubAlpha  []string
	pub2Alpha []string
	pubs      int
	first     *bpub
	ended     bool
	failed    bool // the client rejected / never answered the REGISTER: nothing more is owed
}

func (m *c02mon) resolve(p refsn.Pkt) (string, bool) {
	switch p.TIT {
	case 0:
		n, ok := m.reg[p.TopicID]
		return n, ok
	case 1:
		return refPredef(m.cfg, "c1", p.TopicID)
	case 2:
		return string([]byte{byte(p.TopicID >> 8), byte(p.TopicID)}), true
	}
	return "", false
}

func (m *c02mon) clientKnows(topic string) bool {
	if len(topic) == 2 {
		return true
	}
	for _, n := range m.reg {
		if n == topic {
			return true
		}
	}
	for id := uint16(0); id <= 4; id++ {
		if n, ok := refPredef(m.cfg, "c1", id); ok && n == topic {
			return true
		}
	}
	return false
}

func (m *c02mon) After(g *gw.GW, ev string, sn []gw.SNOut, mq []gw.MQOut, setup bool) []explore.Violation {
	var vs []explore.Violation
	add := func(sig, f string, a ...any) {
		vs = append(vs, explore.Violation{Sig: sig, Detail: fmt.Sprintf(f, a...) + " (event " + gw.Label(ev) + ")"})
	}
	m.regName = ""
	newPub := false
	knewBefore := false
	regackedNow := false
	for _, st := range steps(ev) {
		switch {
		case st.kind == "C" && st.sn.Type == refsn.REGISTER:
			m.regName = st.sn.Str
			m.hist++
		case st.kind == "C" && st.sn.Type == refsn.SUBSCRIBE:
			if st.sn.TIT == 0 && !strings.ContainsAny(st.sn.Str, "+#") {
				m.subNames[st.sn.MsgID] = st.sn.Str
			}
			m.hist++
		case st.kind == "C" && st.sn.Type == refsn.REGACK:
			if r, ok := m.pending[st.sn.MsgID]; ok {
				delete(m.pending, st.sn.MsgID)
				if st.sn.RC == 0 {
					m.reg[r.TopicID] = r.Str
					regackedNow = true
				} else {
					m.failed = true
				}
			}
		case st.kind == "B" && st.mq.Type == refmqtt.PUBLISH:
			q := st.mq
			m.first = m.pub
			m.pub = &bpub{topic: q.Topic, qos: q.QoS, retain: q.Retain, payload: string(q.Payload)}
			m.pubs++
			m.failed = false
			m.timers = 0
			for k := range m.pending {
				delete(m.pending, k)
			}
			newPub = true
			knewBefore = m.clientKnows(q.Topic)
		case st.kind == "T":
			m.timers++
			if m.timers > 2 { // RetryCount retransmissions of the REGISTER went unanswered: the gateway gives up
				m.failed = true
			}
		}
	}
	registerNow := false
	for _, o := range sn {
		if o.Err != nil {
			add("undecodable-datagram", "gateway sent %x", o.Raw)
			continue
		}
		p := o.P
		switch p.Type {
		case refsn.REGACK:
			if p.RC == 0 && m.regName != "" {
				m.reg[p.TopicID] = m.regName
			}
		case refsn.SUBACK:
			if name, ok := m.subNames[p.MsgID]; ok && p.RC == 0 && p.TopicID != 0 {
				m.reg[p.TopicID] = name
			}
			delete(m.subNames, p.MsgID)
		case refsn.REGISTER:
			m.pending[p.MsgID] = p
			registerNow = true
			if m.pub == nil || p.Str != m.pub.topic {
				add("register-for-wrong-name", "gateway REGISTER for %q while the broker's topic is %v", p.Str, m.pub)
			}
		case refsn.PUBLISH:
			if m.pub == nil {
				add("unexpected-publish", "PUBLISH %v without a broker PUBLISH", p)
				continue
			}
			if m.pubs == 2 && p.MsgID != 6 && m.first != nil {
				// a retransmission of the first message (its exchange may still be open)
				if n, ok := m.resolve(p); !ok || n != m.first.topic || !p.DUP {
					add("first-publish-retransmission-differs", "retransmission %v of the first message (topic %q)", p, m.first.topic)
				}
				continue
			}
			name, ok := m.resolve(p)
			switch {
			case !ok:
				add(fmt.Sprintf("publish-under-unresolvable-id:tit=%d", p.TIT), "broker topic %q sent as PUBLISH with topic id type %d id %d which the client cannot resolve (knows %s)", m.pub.topic, p.TIT, p.TopicID, mapKey(m.reg))
			case name != m.pub.topic:
				add(fmt.Sprintf("publish-resolves-to-wrong-topic:tit=%d", p.TIT), "broker topic %q sent under type %d id %d which the client resolves to %q", m.pub.topic, p.TIT, p.TopicID, name)
			case string(p.Data) != m.pub.payload || p.QoS != m.pub.qos || p.Retain != m.pub.retain:
				add("publish-content-differs", "broker PUBLISH %v delivered as %v", *m.pub, p)
			case m.pub.done && !p.DUP:
				add("publish-delivered-twice", "broker PUBLISH %v delivered again without DUP", *m.pub)
			}
			m.pub.done = true
		}
	}
	if newPub && !m.pub.done {
		if knewBefore {
			add("known-topic-not-delivered", "broker PUBLISH on %q (an id for it is known to the client) was not delivered", m.pub.topic)
		} else if !registerNow && !g.Returned {
			add("unknown-topic-neither-registered-nor-delivered", "broker PUBLISH on new topic %q: neither REGISTER nor PUBLISH sent", m.pub.topic)
		}
	}
	if regackedNow && m.pub != nil && !m.pub.done && !g.Returned {
		add("not-delivered-after-regack", "client accepted the REGISTER for %q but the PUBLISH was not delivered", m.pub.topic)
	}
	m.ended = g.Returned
	return vs
}

func (m *c02mon) Key() string {
	pend := map[uint16]string{}
	for k, v := range m.pending {
		pend[k] = fmt.Sprintf("%d:%s", v.TopicID, v.Str)
	}
	return fmt.Sprintf("reg=%s pend=%s pub=%v hist=%d t=%d failed=%t n=%d", mapKey(m.reg), mapKey(pend), m.pub, m.hist, m.timers, m.failed, m.pubs)
}
func (m *c02mon) Class() string {
	switch {
	case m.pub == nil:
		return "history"
	case m.pub.done:
		return "delivered"
	case len(m.pending) > 0:
		return "awaiting-regack"
	}
	return "not-delivered"
}
func (m *c02mon) Next(g *gw.GW) []string {
	if g.Returned {
		return nil
	}
	if m.pub == nil {
		a := append([]string{}, m.pubAlpha...)
		if m.hist < m.maxHist {
			a = append(a, m.histAlpha...)
		}
		return a
	}
	if m.pub.done || m.failed {
		// the first publish is settled (delivered, REGISTER rejected or given up):
		// one more publish per topic shows what the session remembers of it
		if m.pubs >= 2 {
			return nil
		}
		for _, e := range m.pub2Alpha {
			if p, ok := brokerPkt(e); ok && p.Topic == m.pub.topic {
				return []string{e}
			}
		}
		return nil
	}
	var a []string
	for mid := range m.pending {
		a = append(a, gw.EvC(fmt.Sprintf("REGACK(mid %d, accepted)", mid), gw.Regack(m.pending[mid].TopicID, mid, 0)),
			gw.EvC(fmt.Sprintf("REGACK(mid %d, rejected)", mid), gw.Regack(m.pending[mid].TopicID, mid, 3)))
	}
	if len(m.pending) > 0 && m.timers < 6 {
		a = append(a, gw.EvTimer)
	}
	sortStrings(a)
	return a
}

func c02pubAlphabet(thorough bool) []string {
	var a []string
	for _, topic := range []string{"xy", "p/1", "p/2", "r/1", "r/2", "w/1", "w/2"} {
		for qos := byte(0); qos <= 2; qos++ {
			for _, ret := range []bool{false, true} {
				for _, pl := range []string{"", "\x00\xffp\x00"} {
					dups := []bool{false}
					if thorough && qos > 0 {
						dups = []bool{false, true}
					}
					for _, dup := range dups {
						a = append(a, gw.EvB(fmt.Sprintf("broker PUBLISH{%s q%d ret=%t dup=%t pl=%q}", topic, qos, ret, dup, pl),
							refmqtt.EncPublish(topic, qos, dup, ret, 5, []byte(pl))))
					}
				}
			}
		}
	}
	// names of two characters that are not two octets (must be registered, not sent as short names) and a
	// two-octet name of one character (a short name)
	for _, topic := range []string{"a\u00e9", "\u00e9\u00e8", "\u00e9"} {
		for qos := byte(0); qos <= 1; qos++ {
			a = append(a, gw.EvB(fmt.Sprintf("broker PUBLISH{%q q%d}", topic, qos), refmqtt.EncPublish(topic, qos, false, false, 5, []byte("p"))))
		}
	}
	return a
}

func c02specs() []gw.Spec {
	thorough := explore.Tier() == "thorough"
	suback := func(mid uint16) string { return gw.EvB("", refmqtt.EncSuback(mid, 0)) }
	hist := []string{
		gw.EvC("REGISTER r/1", gw.Register(0, 7, "r/1")),
		gw.Ev("SUBSCRIBE r/2 + SUBACK", gw.EvC("", gw.SubscribeName(8, "r/2", 1, false)), suback(8)),
		gw.Ev("SUBSCRIBE w/# + SUBACK", gw.EvC("", gw.SubscribeName(9, "w/#", 1, false)), suback(9)),
	}
	pubs := c02pubAlphabet(thorough)
	var pubs2 []string
	for _, topic := range []string{"xy", "p/1", "p/2", "r/1", "r/2", "w/1", "w/2"} {
		pubs2 = append(pubs2, gw.EvB(fmt.Sprintf("2nd broker PUBLISH{%s q1}", topic), refmqtt.EncPublish(topic, 1, false, false, 6, []byte("2"))))
	}
	vals := []string{"", "p/1", "p/2"}
	var out []gw.Spec
	for code := 0; code < 81; code++ {
		// quick: the 9 configurations over id 1 only
		if !thorough && code%9 != 0 {
			continue
		}
		pre := topics.PredefinedTopics{}
		c := code
		for _, id := range []uint16{2, 1} {
			for _, cl := range []string{"c1", "*"} {
				if v := vals[c%3]; v != "" {
					pre.Add(cl, v, id)
				}
				c /= 3
			}
		}
		// two ids with the same name in one table make GetTopicID's answer depend on
		// Go's map iteration order: either answer is correct, but the execution is
		// not reproducible; those configurations are left to C05/C32
		dupName := false
		for _, tbl := range pre {
			if len(tbl) == 2 && tbl[1] == tbl[2] {
				dupName = true
			}
		}
		if dupName {
			continue
		}
		pre2 := pre
		cfg := gw.DefaultConfig()
		cfg.Predefined = pre2
		cfg.RetryCount = 2
		out = append(out, gw.Spec{Name: fmt.Sprintf("cfg%02d:%v", code, pre2), Cfg: cfg, Setup: connectSetup("c1", 30), NewMonitor: func() gw.Monitor {
			return &c02mon{cfg: pre2, reg: map[uint16]string{}, subNames: map[uint16]string{}, pending: map[uint16]refsn.Pkt{}, maxHist: 3, histAlpha: hist, pubAlpha: pubs, pub2Alpha: pubs2}
		}})
	}
	return out
}

func TestC02(t *testing.T) {
	specs := c02specs()
	if explore.IsWorker() {
		gw.ServeBFS(t, specs)
		return
	}
	rep := explore.NewReport("C02", "model_checking")
	gw.BFSCheck(rep, specs, gw.BFSOpts{Test: "TestC02"}, 200, 1200)
	rep.Coverage["rule"] = "for every predefined-topic configuration {c1,*} x id{1,2} -> {absent,p/1,p/2} (quick: the 9 over id 1; configurations where one table maps two ids to one name are skipped, see assumptions): BFS over up to 3 client registrations/subscriptions, then every broker PUBLISH of topic{xy,p/1,p/2,r/1,r/2,w/1,w/2} x QoS{0,1,2} x retain x payload{empty,p} (thorough: x DUP) and of the non-ASCII names {2 characters in 3 octets, 2 characters in 4 octets, 1 character in 2 octets} x QoS{0,1}, then every client answer to a gateway REGISTER (accepted / rejected / silence with retry timers); monitor = the client's own resolver (short decoding, predefined reference, ids it accepted)"
	rep.Assumptions = []string{"default schedule", "Go map iteration order is not controllable: configurations with two ids for one name in the same table are not explored here"}
	rep.Finish()
}
