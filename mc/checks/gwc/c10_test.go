package gwc

import (
	"fmt"
	"testing"
	"time"

	"verif/mc/explore"
	"verif/mc/harness/gw"
	"verif/mc/ref/refmqtt"
	"verif/mc/ref/refsn"
	"verif/mc/vsched"
)

// ---- C10: half-open connect exchanges are reaped ------------------------------------

const c10Silence = "client falls silent|T:10000000000"

type c10mon struct {
	open        bool          // a connect exchange was started and the broker has not accepted yet
	tConnect    time.Duration // virtual time of the CONNECT that started it
	accepted    bool
	outstanding int
	advances    int
	depth       int
	maxDepth    int
	probed      bool
	alphabet    []string
}

func (m *c10mon) After(g *gw.GW, ev string, sn []gw.SNOut, mq []gw.MQOut, setup bool) []explore.Violation {
	var vs []explore.Violation
	if ev == c10Silence {
		m.probed = true
		if !m.open || m.accepted {
			return nil
		}
		deadline := m.tConnect + 5*time.Second + 100*time.Millisecond
		switch {
		case !g.Returned:
			vs = append(vs, explore.Violation{Sig: "half-open-session-never-ends", Detail: fmt.Sprintf("client silent after a CONNECT at %v: session still alive 10 s later", m.tConnect)})
		case g.RetAt > deadline:
			vs = append(vs, explore.Violation{Sig: "half-open-session-ends-late", Detail: fmt.Sprintf("CONNECT at %v: session ended at %v, later than connect timeout + one poll interval (%v)", m.tConnect, g.RetAt, deadline)})
		case !g.BrokerConnClosed():
			vs = append(vs, explore.Violation{Sig: "broker-connection-not-closed", Detail: "session ended but the broker connection was not closed"})
		}
		return vs
	}
	m.depth++
	for _, st := range steps(ev) {
		switch {
		case st.kind == "C" && st.sn.Type == refsn.CONNECT && st.sn.Duration != 0:
			m.open, m.accepted = true, false
			m.tConnect = g.S.Now().Sub(vsched.Epoch)
		case st.kind == "B" && st.mq.Type == refmqtt.CONNACK:
			m.outstanding--
			if st.mq.RC == 0 {
				m.accepted = true
			}
		case st.kind == "T":
			m.advances++
		}
	}
	for _, o := range mq {
		if o.P.Type == refmqtt.CONNECT {
			m.outstanding++
		}
	}
	return nil
}

func (m *c10mon) Key() string {
	return fmt.Sprintf("open=%t t=%v acc=%t out=%d adv=%d probed=%t", m.open, m.tConnect, m.accepted, m.outstanding, m.advances, m.probed)
}
func (m *c10mon) Class() string {
	if m.probed {
		if m.open && !m.accepted {
			return "probed:half-open"
		}
		return "probed:trivial"
	}
	return "prefix"
}
func (m *c10mon) Next(g *gw.GW) []string {
	if g.Returned || m.probed || g.H.VEnding() {
		return nil
	}
	a := []string{c10Silence}
	if m.depth >= m.maxDepth {
		return a
	}
	for _, e := range m.alphabet {
		if _, isB := brokerPkt(e); isB && m.outstanding <= 0 {
			continue
		}
		a = append(a, e)
	}
	if m.advances < 2 {
		a = append(a, gw.EvAdvance(2*time.Second))
	}
	return a
}

func c10specs() []gw.Spec {
	depth := 4
	if explore.Tier() == "thorough" {
		depth = 5
	}
	var out []gw.Spec
	for _, auth := range []bool{false, true} {
		auth := auth
		cfg := gw.DefaultConfig()
		cfg.Auth = auth
		out = append(out, gw.Spec{Name: fmt.Sprintf("auth=%t", auth), Cfg: cfg, NoSettle: true, Livelock: true, NewMonitor: func() gw.Monitor {
			return &c10mon{alphabet: connAlphabet(), maxDepth: depth}
		}})
	}
	return out
}

func TestC10(t *testing.T) {
	specs := c10specs()
	if explore.IsWorker() {
		gw.ServeBFS(t, specs)
		return
	}
	rep := explore.NewReport("C10", "model_checking")
	gw.BFSCheck(rep, specs, gw.BFSOpts{Test: "TestC10"}, 200, 1200)
	rep.Coverage["rule"] = "BFS over every prefix (depth<=4, thorough 5) of connect exchanges over CONNECT{will,no will,keep-alive 0}/AUTH x6/WILLTOPIC x2/WILLMSG x2/broker CONNACK{0,4,5}/2 s pauses, authentication off and on; after each prefix the client (and the broker) fall silent for 10 s of virtual time (connection polls and the connect timer fire in order) and the session must have ended by CONNECT time + 5 s + 100 ms with the broker connection closed; prefixes without an open exchange are counted as trivial"
	rep.Assumptions = []string{"default schedule; virtual time", "a prefix counts as half-open if it contains a CONNECT (keep-alive != 0) not yet accepted by the broker"}
	rep.Finish()
}
