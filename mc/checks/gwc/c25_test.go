package gwc

import (
	"fmt"
	"sort"
	"strings"
	"testing"

	"github.com/energomonitor/bisquitt/topics"

	"verif/mc/explore"
	"verif/mc/harness/gw"
	"verif/mc/ref/refmqtt"
	"verif/mc/ref/refsn"
)

// ---- C25 (gateway part): no packet sequence crashes a gateway session -------------

type c25mon struct {
	depth, maxDepth int
	alphabet        []string
	ended           bool
}

func (m *c25mon) After(g *gw.GW, ev string, sn []gw.SNOut, mq []gw.MQOut, setup bool) []explore.Violation {
	if !setup {
		m.depth++
	}
	m.ended = g.Returned
	// panics are reported by the driver (signature "panic"); refine the signature with the event
	if len(g.S.Panics) > 0 {
		site := "unknown"
		for _, part := range strings.Split(g.S.Panics[0], " | ") {
			if strings.Contains(part, "/repo/") {
				site = part[strings.LastIndex(part, "/")+1:]
				break
			}
		}
		return []explore.Violation{{Sig: "gateway-panic@" + site + ":on=" + kindOf(ev), Detail: g.S.Panics[0] + " (event " + gw.Label(ev) + ")"}}
	}
	return nil
}

func kindOf(ev string) string {
	st := steps(ev)[0]
	switch st.kind {
	case "C":
		return "client-" + st.sn.Name()
	case "B":
		return "broker-" + st.mq.Name()
	}
	return st.kind
}

func (m *c25mon) Key() string   { return fmt.Sprintf("d=%d", m.depth) }
func (m *c25mon) Class() string { return fmt.Sprintf("ended=%t", m.ended) }
func (m *c25mon) Next(g *gw.GW) []string {
	if g.Returned || g.H.VEnding() || m.depth >= m.maxDepth || len(g.S.Panics) > 0 {
		return nil
	}
	a := m.alphabet
	if len(g.S.PendingTimers()) > 0 {
		a = append(append([]string{}, a...), gw.EvTimer)
	}
	return a
}

func c25alphabet() []string {
	var a []string
	for name, raw := range gw.OneOfEachType() {
		a = append(a, gw.EvC(name, raw))
	}
	m := uint16(1)
	a = append(a,
		gw.EvC("CONNECT(c1,30,will)", gw.Connect("c1", 30, true, true)),
		gw.EvC("CONNECT(c1,0)", gw.Connect("c1", 0, false, true)),
		gw.EvC("DISCONNECT(5)", gw.Disconnect(5)),
		gw.EvC("AUTH(X)", gw.AuthRaw("X", nil)),
		gw.EvC("AUTH(PLAIN malformed)", gw.AuthRaw("PLAIN", []byte("x"))),
		gw.EvC("PUBLISH(q1,predef 1)", gw.Publish(1, 1, m, 1, false, false, "x")),
		gw.EvC("PUBLISH(q2,short)", gw.Publish(2, gw.ShortID("xy"), m, 2, true, true, "")),
		gw.EvC("PUBLISH(q-1,predef 9)", gw.Publish(1, 9, 0, 3, false, false, "x")),
		gw.EvC("PUBLISH(tit 3)", gw.Publish(3, 1, m, 1, false, false, "x")),
		gw.EvC("SUBSCRIBE(w/#)", gw.SubscribeName(m, "w/#", 2, false)),
		gw.EvC("SUBSCRIBE(predef 9)", gw.SubscribeID(m, 1, 9, 0, false)),
		gw.EvC("REGACK(rejected)", gw.Regack(1, m, 3)),
		gw.EvC("PUBACK(rejected)", gw.Puback(1, m, 2)),
		gw.EvC("WILLTOPIC(empty)", gw.WillTopic("", 0, false)),
		gw.EvC("garbage", []byte{0x03, 0x0c, 0x00}),
		gw.EvC("empty datagram", []byte{}),
	)
	b := func(label string, raw []byte) { a = append(a, gw.EvB("broker "+label, raw)) }
	b("CONNECT", refmqtt.EncConnect("x", 10))
	b("CONNACK(0)", refmqtt.EncConnack(0))
	b("CONNACK(5)", refmqtt.EncConnack(5))
	b("PUBLISH(p/1,q0)", refmqtt.EncPublish("p/1", 0, false, false, 0, []byte("b")))
	b("PUBLISH(p/1,q1)", refmqtt.EncPublish("p/1", 1, false, false, m, []byte("b")))
	b("PUBLISH(w/n,q2)", refmqtt.EncPublish("w/n", 2, true, true, m, []byte("b")))
	b("PUBLISH(xy,q1)", refmqtt.EncPublish("xy", 1, false, false, m, nil))
	b("PUBLISH(empty topic)", refmqtt.EncPublish("", 0, false, false, 0, []byte("b")))
	b("PUBLISH(qos 3)", []byte{0x36, 0x05, 0x00, 0x01, 'a', 0x00, 0x01})
	b("PUBACK", refmqtt.EncPuback(m))
	b("PUBREC", refmqtt.EncPubrec(m))
	b("PUBREL", refmqtt.EncPubrel(m))
	b("PUBCOMP", refmqtt.EncPubcomp(m))
	b("SUBSCRIBE", refmqtt.EncSubscribe(m, "a", 1))
	b("SUBACK(1)", refmqtt.EncSuback(m, 1))
	b("SUBACK(0x80)", refmqtt.EncSuback(m, 0x80))
	b("SUBACK(no codes)", refmqtt.EncSuback(m))
	b("SUBACK(two codes)", refmqtt.EncSuback(m, 0, 1))
	b("UNSUBSCRIBE", []byte{0xA2, 0x05, 0x00, 0x01, 0x00, 0x01, 'a'})
	b("UNSUBACK", refmqtt.EncUnsuback(m))
	b("PINGREQ", refmqtt.EncPingreq())
	b("PINGRESP", refmqtt.EncPingresp())
	b("DISCONNECT", refmqtt.EncDisconnect())
	b("reserved type 15", []byte{0xF0, 0x00})
	b("truncated", []byte{0x30})
	a = append(a, gw.EvBrokerClose)
	sort.Strings(a)
	return a
}

func c25specs() []gw.Spec {
	depth := 3
	if explore.Tier() == "thorough" {
		depth = 4
	}
	alpha := c25alphabet()
	var out []gw.Spec
	for _, auth := range []bool{false, true} {
		cfg := gw.DefaultConfig()
		cfg.Auth = auth
		cfg.Predefined = topics.PredefinedTopics{"*": {1: "p/1"}}
		out = append(out,
			gw.Spec{Name: fmt.Sprintf("fresh,auth=%t", auth), Cfg: cfg, Livelock: true, NewMonitor: func() gw.Monitor { return &c25mon{maxDepth: depth, alphabet: alpha} }},
		)
		if !auth {
			out = append(out,
				gw.Spec{Name: "connected", Cfg: cfg, Livelock: true, Setup: connectSetup("c1", 30), NewMonitor: func() gw.Monitor { return &c25mon{maxDepth: depth, alphabet: alpha} }},
				gw.Spec{Name: "asleep", Cfg: cfg, Livelock: true, Setup: append(connectSetup("c1", 30), gw.EvC("DISCONNECT(60)", gw.Disconnect(60))), NewMonitor: func() gw.Monitor { return &c25mon{maxDepth: depth, alphabet: alpha} }},
			)
		}
	}
	return out
}

var _ = refsn.Names

func TestC25(t *testing.T) {
	specs := c25specs()
	if explore.IsWorker() {
		gw.ServeBFS(t, specs)
		return
	}
	rep := explore.NewReport("C25", "model_checking")
	gw.BFSCheck(rep, specs, gw.BFSOpts{Test: "TestC25"}, 240, 1500)
	rep.Coverage["rule"] = "gateway part: BFS (depth 3, thorough 4) from four start states (fresh with auth off/on, connected, asleep) over one datagram of every MQTT-SN message type with message id 1 plus state-changing variants and undecodable input, every MQTT packet type from the broker (including ones a broker never sends, SUBACK with 0 and 2 return codes, reserved type, QoS 3, truncated packet), broker close and every pending timer; any panic of a session goroutine is a violation"
	rep.Assumptions = []string{"default schedule (pairs of simultaneously delivered packets are covered by the E2 scenarios of C03/C11/C13)", "panics are caught in the goroutine wrappers of the overlay; a fatal runtime error kills the worker and is reported as a harness error"}
	rep.Finish()
}
