package gwc

import (
	"fmt"
	"sort"
	"strings"
	"time"

	"github.com/energomonitor/bisquitt/topics"

	"verif/mc/harness/gw"
	"verif/mc/ref/refmqtt"
	"verif/mc/ref/refsn"
)

var _ = fmt.Sprint
var _ = sort.Strings
var _ = strings.Join
var _ = time.Second

func predef1() topics.PredefinedTopics {
	return topics.PredefinedTopics{"*": {1: "p/1"}}
}

// evName extracts the SN packet of a client event (decoded by the reference).
func clientPkt(ev string) (refsn.Pkt, bool) {
	i := strings.LastIndex(ev, "|C:")
	if i < 0 {
		return refsn.Pkt{}, false
	}
	var raw []byte
	fmt.Sscanf(ev[i+3:], "%x", &raw)
	p, err := refsn.Decode(raw)
	return p, err == nil
}

func brokerPkt(ev string) (refmqtt.Pkt, bool) {
	i := strings.LastIndex(ev, "|B:")
	if i < 0 {
		return refmqtt.Pkt{}, false
	}
	var raw []byte
	fmt.Sscanf(ev[i+3:], "%x", &raw)
	p, _, err := refmqtt.Parse(raw)
	return p, err == nil
}

func connectSetup(id string, ka uint16) []string {
	return []string{
		gw.EvC("CONNECT("+id+")", gw.Connect(id, ka, false, true)),
		gw.EvB("CONNACK(0)", refmqtt.EncConnack(0)),
	}
}

func sortStrings(a []string) { sort.Strings(a) }
