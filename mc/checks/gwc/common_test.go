package gwc

import (
	"fmt"
	"sort"
	"strings"
	"time"

	"github.com/energomonitor/bisquitt/topics"

	"verif/mc/harness/gw"
	"verif/mc/ref/refmqtt"
	"verif/mc/ref/refsn"
)

var _ = fmt.Sprint
var _ = sort.Strings
var _ = strings.Join
var _ = time.Second

func predef1() topics.PredefinedTopics {
	return topics.PredefinedTopics{"*": {1: "p/1"}}
}

// evName extracts the SN packet of a client event (decoded by the reference).
func clientPkt(ev string) (refsn.Pkt, bool) {
	i := strings.LastIndex(ev, "|C:")
	if i < 0 {
		return refsn.Pkt{}, false
	}
	var raw []byte
	fmt.Sscanf(ev[i+3:], "%x", &raw)
	p, err := refsn.Decode(raw)
	return p, err == nil
}

func brokerPkt(ev string) (refmqtt.Pkt, bool) {
	i := strings.LastIndex(ev, "|B:")
	if i < 0 {
		return refmqtt.Pkt{}, false
	}
	var raw []byte
	fmt.Sscanf(ev[i+3:], "%x", &raw)
	p, _, err := refmqtt.Parse(raw)
	return p, err == nil
}

func connectSetup(id string, ka uint16) []string {
	return []string{
		gw.EvC("CONNECT("+id+")", gw.Connect(id, ka, false, true)),
		gw.EvB("CONNACK(0)", refmqtt.EncConnack(0)),
	}
}

func sortStrings(a []string) { sort.Strings(a) }

// step is one part of a (possibly composite) event.
type step struct {
	kind string // C, B, X, T
	raw  []byte
	sn   refsn.Pkt
	mq   refmqtt.Pkt
}

func steps(ev string) []step {
	var out []step
	i := strings.LastIndex(ev, "|")
	for _, body := range strings.Split(ev[i+1:], "+") {
		st := step{kind: body[:1]}
		if st.kind == "C" || st.kind == "B" {
			fmt.Sscanf(body[2:], "%x", &st.raw)
			if st.kind == "C" {
				st.sn, _ = refsn.Decode(st.raw)
			} else {
				st.mq, _, _ = refmqtt.Parse(st.raw)
			}
		}
		out = append(out, st)
	}
	return out
}

// refPredef: reference lookup, client-specific entry first, else "*".
func refPredef(t topics.PredefinedTopics, client string, id uint16) (string, bool) {
	if m, ok := t[client]; ok {
		if n, ok := m[id]; ok {
			return n, true
		}
	}
	if m, ok := t["*"]; ok {
		if n, ok := m[id]; ok {
			return n, true
		}
	}
	return "", false
}

func mapKey(m map[uint16]string) string {
	ids := make([]int, 0, len(m))
	for k := range m {
		ids = append(ids, int(k))
	}
	sort.Ints(ids)
	s := "{"
	for _, k := range ids {
		s += fmt.Sprintf("%d:%q ", k, m[uint16(k)])
	}
	return s + "}"
}
