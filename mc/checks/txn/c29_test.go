package txn

import (
	"fmt"
	"strings"
	"testing"
	"time"

	"github.com/anishathalye/porcupine"
	pkts "github.com/energomonitor/bisquitt/packets"
	"github.com/energomonitor/bisquitt/transactions"
	"github.com/energomonitor/bisquitt/util"

	"verif/mc/explore"
	"verif/mc/vsched"
)

// ---- C29: ID sequence and transaction store behave atomically ---------------------

type hist struct {
	clock int64
	ops   []porcupine.Operation
}

func (h *hist) call(client int, in any, f func() any) {
	c := h.clock
	h.clock++
	out := f()
	r := h.clock
	h.clock++
	h.ops = append(h.ops, porcupine.Operation{ClientId: client, Input: in, Call: c, Output: out, Return: r})
}

type seqOut struct {
	id  uint16
	ovf bool
}
type seqState struct {
	next uint16
	ovf  bool
}

func seqModel(min, max uint16) porcupine.Model {
	return porcupine.Model{
		Init: func() any { return seqState{min, false} },
		Step: func(st, in, out any) (bool, any) {
			s, o := st.(seqState), out.(seqOut)
			if o.id != s.next || o.ovf != s.ovf {
				return false, st
			}
			if s.next == max {
				return true, seqState{min, true}
			}
			return true, seqState{s.next + 1, false}
		},
		Equal: func(a, b any) bool { return a == b },
	}
}

type dummyTx struct {
	transactions.Transaction
	id int
}

type storeIn struct {
	op    string // store get delete storeT getT deleteT
	key   int
	value int
}
type storeOut struct {
	value int // 0 = none
	ok    bool
}
type storeState struct{ byID, byType int } // one forced key per key space; 0 = absent

func storeModel() porcupine.Model {
	return porcupine.Model{
		Init: func() any { return storeState{} },
		Step: func(st, in, out any) (bool, any) {
			s, i, o := st.(storeState), in.(storeIn), out.(storeOut)
			switch i.op {
			case "store":
				s.byID = i.value
				return true, s
			case "storeT":
				s.byType = i.value
				return true, s
			case "delete":
				s.byID = 0
				return true, s
			case "deleteT":
				s.byType = 0
				return true, s
			case "get":
				return o.value == s.byID && o.ok == (s.byID != 0), s
			case "getT":
				return o.value == s.byType && o.ok == (s.byType != 0), s
			}
			return false, s
		},
		Equal: func(a, b any) bool { return a == b },
	}
}

type c29sc struct {
	name  string
	model porcupine.Model
	// threads returns the per-thread bodies operating on a fresh object
	threads func(h *hist) []func()
}

func seqScenario(min, max uint16, nthreads, ncalls int) c29sc {
	return c29sc{
		name:  fmt.Sprintf("idseq[%d..%d]:%dthreads x %dcalls", min, max, nthreads, ncalls),
		model: seqModel(min, max),
		threads: func(h *hist) []func() {
			seq := util.NewIDSequence(min, max)
			var ths []func()
			for i := 0; i < nthreads; i++ {
				i := i
				ths = append(ths, func() {
					for k := 0; k < ncalls; k++ {
						vsched.Point("op")
						h.call(i, nil, func() any { id, ovf := seq.Next(); return seqOut{id, ovf} })
					}
				})
			}
			return ths
		},
	}
}

func storeScenario(name string, progs [][]storeIn) c29sc { return storeScenarioX(name, false, progs) }

// c29idKey: the message id all by-id operations of a store scenario use.  The "mixed" scenarios also run with ids
// that a packet type could be mistaken for (the type's number itself and the number shifted by one octet): the two
// key spaces must not meet wherever the implementation keeps them.
func storeScenarioKey(name string, key uint16, progs [][]storeIn) c29sc {
	return storeScenarioXK(name, false, key, progs)
}

// live: the stored transactions behave like the project's: when one finishes it removes itself from the store by
// its key (its own atomic map operation, recorded as such in the history).  Storing over a live transaction must
// still return (the store may finish the transaction it replaces) and every single operation stays atomic.
func storeScenarioX(name string, live bool, progs [][]storeIn) c29sc {
	return storeScenarioXK(name, live, 7, progs)
}

func storeScenarioXK(name string, live bool, c29idKey uint16, progs [][]storeIn) c29sc {
	return c29sc{
		name:  "store:" + name,
		model: storeModel(),
		threads: func(h *hist) []func() {
			ts := transactions.NewTransactionStore()
			txs := map[int]*dummyTx{}
			get := func(id int) *dummyTx {
				if txs[id] == nil {
					// a real (finished-able) transaction: storing over an unfinished one may finish it
					finally := func() {}
					if live {
						finally = func() { h.call(100+id, storeIn{op: "delete"}, func() any { ts.Delete(c29idKey); return storeOut{} }) }
					}
					txs[id] = &dummyTx{Transaction: transactions.NewTransactionBase(finally), id: id}
				}
				return txs[id]
			}
			for i := 1; i < 8; i++ {
				get(i)
			}
			var ths []func()
			for i, prog := range progs {
				i, prog := i, prog
				ths = append(ths, func() {
					for _, in := range prog {
						in := in
						vsched.Point("op")
						h.call(i, in, func() any {
							switch in.op {
							case "store":
								ts.Store(c29idKey, txs[in.value])
							case "storeT":
								ts.StoreByType(pkts.CONNECT, txs[in.value])
							case "delete":
								ts.Delete(c29idKey)
							case "deleteT":
								ts.DeleteByType(pkts.CONNECT)
							case "get":
								v, ok := ts.Get(c29idKey)
								if ok {
									return storeOut{v.(*dummyTx).id, true}
								}
								return storeOut{0, false}
							case "getT":
								v, ok := ts.GetByType(pkts.CONNECT)
								if ok {
									return storeOut{v.(*dummyTx).id, true}
								}
								return storeOut{0, false}
							}
							return storeOut{}
						})
					}
				})
			}
			return ths
		},
	}
}

type stIn struct {
	op string
	v  util.ClientState
}

func stateScenario() c29sc {
	return c29sc{
		name: "clientstate:set|set|get",
		model: porcupine.Model{
			Init: func() any { return util.StateDisconnected },
			Step: func(st, in, out any) (bool, any) {
				i := in.(stIn)
				if i.op == "get" {
					return out.(util.ClientState) == st.(util.ClientState), st
				}
				return out.(util.ClientState) == st.(util.ClientState), i.v
			},
			Equal: func(a, b any) bool { return a == b },
		},
		threads: func(h *hist) []func() {
			st := util.StateDisconnected
			mk := func(c int, ins ...stIn) func() {
				return func() {
					for _, in := range ins {
						in := in
						vsched.Point("op")
						h.call(c, in, func() any {
							if in.op == "get" {
								return st.Get()
							}
							return st.Set(in.v)
						})
					}
				}
			}
			return []func(){
				mk(0, stIn{"set", util.StateActive}, stIn{"get", 0}),
				mk(1, stIn{"set", util.StateAsleep}, stIn{"set", util.StateAwake}),
				mk(2, stIn{"get", 0}, stIn{"set", util.StateDisconnected}),
			}
		},
	}
}

func c29Scenarios() []c29sc {
	var out []c29sc
	for min := uint16(0); min <= 3; min++ {
		for max := min; max <= 3; max++ {
			out = append(out, seqScenario(min, max, 2, 2))
			out = append(out, seqScenario(min, max, 3, 2))
		}
	}
	out = append(out, seqScenario(0xFFFE, 0xFFFF, 2, 2), seqScenario(0xFFFE, 0xFFFF, 3, 2))
	S := func(op string, v int) storeIn { return storeIn{op: op, value: v} }
	out = append(out,
		storeScenario("id:store,get|store,delete|get,get", [][]storeIn{{S("store", 1), S("get", 0)}, {S("store", 2), S("delete", 0)}, {S("get", 0), S("get", 0)}}),
		storeScenario("type:store,get|store,delete|get,get", [][]storeIn{{S("storeT", 1), S("getT", 0)}, {S("storeT", 2), S("deleteT", 0)}, {S("getT", 0), S("getT", 0)}}),
		storeScenario("mixed:store,getT|storeT,get|delete,deleteT", [][]storeIn{{S("store", 1), S("getT", 0)}, {S("storeT", 2), S("get", 0)}, {S("delete", 0), S("deleteT", 0)}}),
		storeScenario("id:store,store|get,delete|get,store", [][]storeIn{{S("store", 1), S("store", 3)}, {S("get", 0), S("delete", 0)}, {S("get", 0), S("store", 2)}}),
		storeScenarioKey(fmt.Sprintf("mixed, message id %d = the number of CONNECT:store,getT|storeT,get|delete,deleteT", uint16(pkts.CONNECT)), uint16(pkts.CONNECT), [][]storeIn{{S("store", 1), S("getT", 0)}, {S("storeT", 2), S("get", 0)}, {S("delete", 0), S("deleteT", 0)}}),
		storeScenarioKey(fmt.Sprintf("mixed, message id %d = CONNECT shifted by one octet:store,getT|storeT,get|delete,deleteT", uint16(pkts.CONNECT)<<8), uint16(pkts.CONNECT)<<8, [][]storeIn{{S("store", 1), S("getT", 0)}, {S("storeT", 2), S("get", 0)}, {S("delete", 0), S("deleteT", 0)}}),
		storeScenarioX("live:store,store|get,get|store,get", true, [][]storeIn{{S("store", 1), S("store", 3)}, {S("get", 0), S("get", 0)}, {S("store", 2), S("get", 0)}}),
		stateScenario(),
	)
	return out
}

func runC29(t *testing.T, sc c29sc, prefix []int) explore.ExecResult {
	res, _ := explore.Bubble(t, prefix, func(s *vsched.Sched) (string, []explore.Violation) {
		h := &hist{}
		for _, th := range sc.threads(h) {
			vsched.Go(th)
		}
		s.Run()
		var vs []explore.Violation
		var sb strings.Builder
		for _, op := range h.ops {
			fmt.Fprintf(&sb, "%d:%v->%v@%d-%d;", op.ClientId, op.Input, op.Output, op.Call, op.Return)
		}
		if len(s.Panics) > 0 {
			vs = append(vs, explore.Violation{Property: "C29", Sig: sc.kind() + ":panic", Detail: s.Panics[0], Scenario: sc.name})
		} else if live := s.Live(); live > 0 {
			vs = append(vs, explore.Violation{Property: "C29", Sig: sc.kind() + ":deadlock", Detail: fmt.Sprintf("%d threads never finished: %v", live, s.ParkedLabels()), Scenario: sc.name})
		} else if !porcupine.CheckOperations(sc.model, h.ops) {
			vs = append(vs, explore.Violation{Property: "C29", Sig: sc.kind() + ":not-linearizable", Detail: "history has no linearization: " + sb.String(), Scenario: sc.name})
		}
		return sb.String(), vs
	})
	return res
}

func (sc c29sc) kind() string { return sc.name[:strings.IndexAny(sc.name, ":[")] }

// full range, sequentially: pins the real constants
func c29FullRange() (int, []explore.Violation) {
	var vs []explore.Violation
	n := 0
	for _, r := range [][2]uint16{{pkts.MinTopicAlias, pkts.MaxTopicAlias}, {pkts.MinPacketID, pkts.MaxPacketID}, {0, 0xFFFF}} {
		seq := util.NewIDSequence(r[0], r[1])
		want, wovf := r[0], false
		for i := 0; i < 2*65536+3; i++ {
			id, ovf := seq.Next()
			n++
			if id != want || ovf != wovf {
				vs = append(vs, explore.Violation{Property: "C29", Sig: "idseq:sequential-full-range", Detail: fmt.Sprintf("range %v call %d: got (%d,%v) want (%d,%v)", r, i, id, ovf, want, wovf)})
				break
			}
			if want == r[1] {
				want, wovf = r[0], true
			} else {
				want, wovf = want+1, false
			}
		}
	}
	return n, vs
}

func TestC29(t *testing.T) {
	var scs []explore.Scenario
	for _, sc := range c29Scenarios() {
		sc := sc
		scs = append(scs, explore.Scenario{Name: sc.name, Run: func(p []int) explore.ExecResult { return runC29(t, sc, p) }})
	}
	if explore.IsWorker() {
		explore.ServeScenarios(scs)
		return
	}
	rep := explore.NewReport("C29", "model_checking")
	n, vs := c29FullRange()
	rep.Add(vs...)
	explore.RunScenarios(rep, scs, explore.ScenarioOpts{Test: "TestC29", QuickBound: 3, ThoroughFrom: 3, ThoroughMax: 6, Unbounded: true,
		QuickBudget: 60 * time.Second, ThoroughBudge: 8 * time.Minute})
	rep.Coverage["sequential_full_range_calls"] = n
	rep.Coverage["rule"] = "all interleavings within the preemption bound of 2-3 threads x 2 calls on one IDSequence (all ranges 0<=min<=max<=3 and 0xFFFE..0xFFFF), on one TransactionStore key per key space (also with transactions that remove themselves from the store when the store finishes the one it replaces), and on one ClientState; points at the shim mutex/atomic and at the guarded fields; every call/return history checked for linearizability with porcupine against a sequential reference; plus the full uint16 ranges sequentially"
	rep.Assumptions = []string{"sequentially consistent memory"}
	rep.Finish()
}
