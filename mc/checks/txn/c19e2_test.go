package txn

import (
	"context"
	"fmt"
	"strings"
	"testing"
	"time"

	"github.com/energomonitor/bisquitt/transactions"

	"verif/mc/explore"
	"verif/mc/vsched"
)

// ---- C19 (schedules): progress resets the retry budget, whatever it interleaves with ----------
//
// A two-step retry transaction whose retry callback takes time (it contains a
// scheduling point, like the network write it stands for): the second step's
// Proceed may run before, while or after a retry callback of the first step is
// executing.  Whatever the interleaving, the second step gets exactly
// RetryCount retries, one per RetryDelay counted from its Proceed, and the transaction fails one RetryDelay after the last of them.

type c19cb struct {
	at   time.Duration
	data string
}

func runC19e2(t *testing.T, count uint, firstRetries int, prefix []int) explore.ExecResult {
	res, _ := explore.Bubble(t, prefix, func(s *vsched.Sched) (string, []explore.Violation) {
		now := func() time.Duration { return s.Now().Sub(vsched.Epoch) }
		var cbs []c19cb
		var tx *transactions.RetryTransaction
		delay := time.Second
		ctx, cancel := context.WithCancel(context.Background())
		tx = transactions.NewRetryTransaction(ctx, delay, count, func(d interface{}) error {
			cbs = append(cbs, c19cb{now(), d.(string)})
			vsched.Point("retry callback (write)")
			return nil
		}, func() {})
		s.NoChoice = true
		vsched.Go(func() { tx.Proceed(1, "d1") })
		s.Run()
		// let the first step use up some of its retries
		for i := 0; i < firstRetries; i++ {
			s.FireNext()
		}
		s.NoChoice = false
		s.TimerChoices = true
		s.Horizon = s.Now().Add(time.Duration(count+3) * delay)
		proceeded := time.Duration(-1)
		lateProgress := false
		called := time.Duration(-1)
		vsched.Go(func() {
			called = now()
			tx.Proceed(2, "d2")
			proceeded = now()
			// progress that comes after the first step's budget has run out changes nothing any more
			lateProgress = isDone(tx)
		})
		s.Run()
		s.TimerChoices = false
		s.NoChoice = true
		for i := 0; i < 10 && s.FireNext(); i++ {
		}
		var vs []explore.Violation
		add := func(sig, f string, a ...any) {
			vs = append(vs, explore.Violation{Property: "C19", Sig: "e2:" + sig, Detail: fmt.Sprintf("RetryCount %d, first step retried %d times before the progress; callbacks %v; Proceed(step 2) returned at %v: ", count, firstRetries, cbs, proceeded) + fmt.Sprintf(f, a...)})
		}
		var d2 []time.Duration
		staleD1 := 0
		for _, c := range cbs {
			if c.data == "d2" {
				d2 = append(d2, c.at)
			} else if proceeded >= 0 && c.at > proceeded {
				staleD1++
			}
		}
		doneErr := "not done"
		if isDone(tx) {
			doneErr = errStr(tx.Err())
		}
		switch {
		case len(s.Panics) > 0:
			add("panic", "%s", s.Panics[0])
		case proceeded < 0:
			add("proceed-blocked", "Proceed of the second step never returned")
		case lateProgress:
			if len(d2) > 0 {
				add("retry-after-done", "the transaction had finished before the progress, yet the second step's data was retried %d times", len(d2))
			}
		case staleD1 > 0:
			add("stale-retry-after-progress", "%d retry callbacks with the first step's data after the progress", staleD1)
		case len(d2) != int(count):
			add(fmt.Sprintf("retries-after-progress=%d:want=%d", len(d2), count), "the second step was retried %d times, want exactly RetryCount = %d", len(d2), count)
		case doneErr != transactions.ErrNoMoreRetries.Error():
			add("final-error", "after the retries the transaction is %s, want failed with %q", doneErr, transactions.ErrNoMoreRetries)
		default:
			// the budget is counted from the progress: some instant between the call of Proceed and its return
			// (the thread may have been delayed inside), then one RetryDelay between consecutive retries
			for i, at := range d2 {
				if i == 0 {
					if at < called+delay || at > proceeded+delay {
						add("retry-instant", "the first retry of the second step came at %v, want between %v and %v (one RetryDelay after the progress, which happened between the call of Proceed at %v and its return)", at, called+delay, proceeded+delay, called)
						break
					}
				} else if at != d2[i-1]+delay {
					add("retry-instant", "retry %d of the second step came at %v, want %v (one RetryDelay after the previous one)", i+1, at, d2[i-1]+delay)
					break
				}
			}
		}
		cancel()
		s.Run()
		out := fmt.Sprintf("%v|p=%v|%s", cbs, proceeded, doneErr)
		return out, vs
	})
	return res
}

func TestC19e2(t *testing.T) {
	var scs []explore.Scenario
	for _, count := range []uint{1, 2} {
		for first := 0; first <= int(count); first++ {
			count, first := count, first
			scs = append(scs, explore.Scenario{Name: fmt.Sprintf("count=%d,first-step-retries=%d", count, first), Run: func(p []int) explore.ExecResult { return runC19e2(t, count, first, p) }})
		}
	}
	if explore.IsWorker() {
		explore.ServeScenarios(scs)
		return
	}
	rep := explore.NewReport("C19", "model_checking")
	explore.RunScenarios(rep, scs, explore.ScenarioOpts{Test: "TestC19e2", QuickBound: 3, ThoroughFrom: 3, ThoroughMax: 6, Unbounded: true,
		QuickBudget: 60 * time.Second, ThoroughBudge: 6 * time.Minute})
	rep.Coverage["rule"] = strings.TrimSpace("schedule part: a two-step retry transaction (RetryCount 1 and 2) whose retry callback contains a scheduling point; after 0..RetryCount retries of the first step the second step's Proceed runs concurrently with the timers (timer expiry a choice at every point): whatever the interleaving the second step is retried exactly RetryCount times, one RetryDelay apart counted from the return of its Proceed, no callback with the first step's data comes afterwards and the transaction fails with ErrNoMoreRetries")
	rep.Assumptions = []string{"schedule part: sequentially consistent memory; virtual time"}
	rep.Finish()
}
