package txn

import (
	"context"
	"errors"
	"fmt"
	"strings"
	"testing"
	"time"

	"github.com/energomonitor/bisquitt/transactions"

	"verif/mc/explore"
	"verif/mc/vsched"
)

// ---- C18: a finished transaction stays finished -------------------------------

type txn interface {
	Done() <-chan struct{}
	Err() error
	Success()
	Fail(error)
}

type mon struct {
	s        *vsched.Sched
	tx       txn
	finally  int
	retries  int
	doneSeen bool
	errAt    error
	log      []string
	viol     map[string]string
	store    *transactions.TransactionStore
}

// finallyFn is a completion callback like the ones bisquitt uses: it removes
// the transaction from a store (taking the store's lock) and is then complete.
func (m *mon) finallyFn() func() {
	m.store = transactions.NewTransactionStore()
	return func() {
		m.store.Delete(1)
		m.finally++
		m.log = append(m.log, "finally")
	}
}

func (m *mon) v(sig, detail string) {
	if m.viol == nil {
		m.viol = map[string]string{}
	}
	if _, ok := m.viol[sig]; !ok {
		m.viol[sig] = detail
	}
}

func isDone(t txn) bool {
	select {
	case <-t.Done():
		return true
	default:
		return false
	}
}

func errStr(e error) string {
	if e == nil {
		return "nil"
	}
	return e.Error()
}

// step is the monitor: evaluated at every quiescent moment.
func (m *mon) step() {
	if m.tx == nil {
		return
	}
	if m.finally > 1 {
		m.v("finally-ran-more-than-once", fmt.Sprintf("completion callback ran %d times", m.finally))
	}
	if isDone(m.tx) {
		if m.finally == 0 {
			m.v("done-closed-before-completion-callback-ran", "Done is closed but the completion callback has not run (to completion) yet")
		}
		e := m.tx.Err()
		if !m.doneSeen {
			m.doneSeen = true
			m.errAt = e
			m.log = append(m.log, "done err="+errStr(e))
		} else if e != m.errAt {
			m.v("err-changed-after-done", fmt.Sprintf("Err() was %s when Done closed, later %s", errStr(m.errAt), errStr(e)))
			m.errAt = e
		}
	}
}

type scenario struct {
	name    string
	horizon time.Duration
	// build constructs the transaction inside thread "ctor" (so that timers that
	// fire immediately race with the constructor) and returns the other threads.
	build func(m *mon, ctx context.Context, cancel func()) (ctor func(), threads []func())
}

var errA = errors.New("errA")
var errCb = errors.New("callback failed")

func retryScenario(name string, count uint, cbErr bool, mk func(tx *transactions.RetryTransaction, cancel func()) []func()) scenario {
	return scenario{name: name, horizon: 5 * time.Second, build: func(m *mon, ctx context.Context, cancel func()) (func(), []func()) {
		var tx *transactions.RetryTransaction
		tx = transactions.NewRetryTransaction(ctx, time.Second, count, func(d interface{}) error {
			m.retries++
			if isDone(tx) {
				m.v("retry-callback-after-done", "retry callback invoked after Done closed")
			}
			m.log = append(m.log, "retry")
			if cbErr {
				return errCb
			}
			return nil
		}, m.finallyFn())
		m.tx = tx
		return nil, mk(tx, cancel)
	}}
}

func timedScenario(name string, timeout time.Duration, mk func(get func() *transactions.TimedTransaction, cancel func()) []func()) scenario {
	return scenario{name: name, horizon: 3 * time.Second, build: func(m *mon, ctx context.Context, cancel func()) (func(), []func()) {
		var tx *transactions.TimedTransaction
		ctor := func() {
			tx = transactions.NewTimedTransaction(ctx, timeout, m.finallyFn())
			m.tx = tx
		}
		return ctor, mk(func() *transactions.TimedTransaction { return tx }, cancel)
	}}
}

func scenarios() []scenario {
	type RT = transactions.RetryTransaction
	type TT = transactions.TimedTransaction
	return []scenario{
		retryScenario("retry:proceed+success|timers", 1, false, func(tx *RT, cancel func()) []func() {
			return []func(){func() { tx.Proceed(1, "d"); tx.Success() }}
		}),
		retryScenario("retry:proceed+fail|timers", 1, false, func(tx *RT, cancel func()) []func() {
			return []func(){func() { tx.Proceed(1, "d"); tx.Fail(errA) }}
		}),
		retryScenario("retry:proceed|success|fail", 1, false, func(tx *RT, cancel func()) []func() {
			return []func(){func() { tx.Proceed(1, "d") }, func() { tx.Success() }, func() { tx.Fail(errA) }}
		}),
		retryScenario("retry:proceed+success|cancel", 1, false, func(tx *RT, cancel func()) []func() {
			return []func(){func() { tx.Proceed(1, "d"); tx.Success() }, func() { cancel() }}
		}),
		retryScenario("retry:proceed|proceed+success", 1, false, func(tx *RT, cancel func()) []func() {
			return []func(){func() { tx.Proceed(1, "d") }, func() { tx.Proceed(2, "e"); tx.Success() }}
		}),
		retryScenario("retry:cberr:proceed|timers", 2, true, func(tx *RT, cancel func()) []func() {
			return []func(){func() { tx.Proceed(1, "d") }}
		}),
		retryScenario("retry:count0:proceed+success|timers", 0, false, func(tx *RT, cancel func()) []func() {
			return []func(){func() { tx.Proceed(1, "d"); tx.Success() }}
		}),
		retryScenario("retry:proceed|cancel|timers", 1, false, func(tx *RT, cancel func()) []func() {
			return []func(){func() { tx.Proceed(1, "d") }, func() { cancel() }}
		}),
		timedScenario("timed:1s:success|fail", time.Second, func(get func() *TT, cancel func()) []func() {
			return []func(){func() { get().Success() }, func() { get().Fail(errA) }}
		}),
		// the same outcome reported twice at once (e.g. an acknowledgement and its duplicate handled by two threads)
		timedScenario("timed:1s:success|success|fail", time.Second, func(get func() *TT, cancel func()) []func() {
			return []func(){func() { get().Success() }, func() { get().Success() }, func() { get().Fail(errA) }}
		}),
		timedScenario("timed:10s:success|success", 10*time.Second, func(get func() *TT, cancel func()) []func() {
			return []func(){func() { get().Success() }, func() { get().Success() }}
		}),
		timedScenario("timed:1s:success|cancel|timer", time.Second, func(get func() *TT, cancel func()) []func() {
			return []func(){func() { get().Success() }, func() { cancel() }}
		}),
		timedScenario("timed:0:ctor|timer", 0, func(get func() *TT, cancel func()) []func() {
			return nil
		}),
		timedScenario("timed:0:success", 0, func(get func() *TT, cancel func()) []func() {
			return []func(){func() { get().Success() }}
		}),
	}
}

func runC18(t *testing.T, sc scenario, prefix []int) explore.ExecResult {
	res, _ := explore.Bubble(t, prefix, func(s *vsched.Sched) (string, []explore.Violation) {
		m := &mon{s: s}
		s.OnStep = m.step
		s.TimerChoices = true
		s.Horizon = vsched.Epoch.Add(sc.horizon)
		ctx, cancel := context.WithCancel(context.Background())
		ctor, threads := sc.build(m, ctx, cancel)
		if ctor != nil {
			vsched.Go(ctor)
			// the other threads use the transaction: they start once it exists
			s.TimerChoices = true
			s.Run()
		}
		if len(s.Panics) == 0 {
			for _, th := range threads {
				vsched.Go(th)
			}
			s.Run()
		}
		m.step()
		// end of execution: everything that can happen within the horizon has happened
		if len(s.Panics) > 0 {
			p := s.Panics[0]
			sig := "panic"
			if strings.Contains(p, "nil pointer") {
				sig = "nil-dereference"
			}
			m.v(sig, p)
		} else if m.tx != nil && isDone(m.tx) {
			if m.finally != 1 {
				m.v("finally-count-at-end", fmt.Sprintf("completion callback ran %d times", m.finally))
			}
		}
		cancel()
		s.TimerChoices = false
		s.Run()
		var vs []explore.Violation
		for _, sig := range explore.SortedKeys(m.viol) {
			vs = append(vs, explore.Violation{Property: "C18", Sig: sc.kind() + ":" + sig, Detail: m.viol[sig], Scenario: sc.name})
		}
		out := strings.Join(m.log, ",") + fmt.Sprintf("|fin=%d|retries=%d|viol=%v", m.finally, m.retries, explore.SortedKeys(m.viol))
		return out, vs
	})
	return res
}

func (sc scenario) kind() string { return sc.name[:strings.Index(sc.name, ":")] }

func TestC18(t *testing.T) {
	var scs []explore.Scenario
	for _, sc := range scenarios() {
		sc := sc
		scs = append(scs, explore.Scenario{Name: sc.name, Run: func(p []int) explore.ExecResult { return runC18(t, sc, p) }})
	}
	if explore.IsWorker() {
		explore.ServeScenarios(scs)
		return
	}
	rep := explore.NewReport("C18", "model_checking")
	explore.RunScenarios(rep, scs, explore.ScenarioOpts{Test: "TestC18", QuickBound: 3, ThoroughFrom: 3, ThoroughMax: 8,
		QuickBudget: 60 * time.Second, ThoroughBudge: 8 * time.Minute})
	rep.Coverage["rule"] = "every interleaving (scheduling points at shim mutex/atomic/timer ops and at accesses to unsynchronised fields; timer expiry is a choice at every point) of each scenario's threads within the preemption bound; states = distinct observed outcomes over all scenarios; transitions = choice points executed"
	rep.Assumptions = []string{"sequentially consistent memory", "scheduling points only at hooked operations (completeness argued by the separate -race pass)"}
	rep.Finish()
}
