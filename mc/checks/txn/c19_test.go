package txn

import (
	"context"
	"fmt"
	"strings"
	"testing"
	"time"

	"github.com/energomonitor/bisquitt/transactions"

	"verif/mc/explore"
	"verif/mc/vsched"
)

// ---- C19: retry and timeout budgets are exact ---------------------------------------
//
// Timed histories on a 1-tick grid (tick = 1 s of virtual time).  An event that
// coincides with a timer instant is explored in both orders and the reference
// is evaluated for the same order (the property is silent on ties).

type tev struct {
	At     int    // tick
	Op     string // proceed success fail
	Before bool   // at a tie: the event precedes the timers due at the same instant
}

type c19case struct {
	Kind    string // retry | timed
	Count   uint
	Delay   int // ticks (retry: RetryDelay; timed: timeout)
	Events  []tev
	Horizon int
	// Postpone: bit i set = the i-th call of the retry callback (0-based, over the whole history) answers
	// ErrRetryPostponed: "the retry does not count and the callback is called again after retryDelay"
	Postpone uint
}

func (c c19case) String() string {
	var sb strings.Builder
	fmt.Fprintf(&sb, "%s(count=%d,delay=%d)", c.Kind, c.Count, c.Delay)
	if c.Postpone != 0 {
		fmt.Fprintf(&sb, " postponed-calls=%b", c.Postpone)
	}
	for _, e := range c.Events {
		o := ">"
		if e.Before {
			o = "<"
		}
		fmt.Fprintf(&sb, " %s@%d%s", e.Op, e.At, o)
	}
	return sb.String()
}

type c19obs struct {
	Callbacks []int // ticks (in ns precision: must be exact multiples)
	DoneAt    int   // -1 if never
	Err       string
}

func (o c19obs) String() string {
	return fmt.Sprintf("cb=%v done@%d err=%s", o.Callbacks, o.DoneAt, o.Err)
}

// reference arithmetic
func c19ref(c c19case) c19obs {
	o := c19obs{DoneAt: -1, Err: "nil"}
	done := false
	deadline := -1 // pending timer instant, -1 none
	retries := uint(0)
	if c.Kind == "timed" {
		deadline = c.Delay
	}
	fireUpTo := func(t int, inclusive bool) {
		for !done && deadline >= 0 && (deadline < t || (inclusive && deadline == t)) {
			at := deadline
			if c.Kind == "timed" {
				done, o.DoneAt, o.Err, deadline = true, at, "transaction timeout", -1
				return
			}
			if retries < c.Count {
				if c.Postpone&(1<<uint(len(o.Callbacks))) == 0 {
					retries++ // a postponed retry does not count
				}
				o.Callbacks = append(o.Callbacks, at)
				deadline = at + c.Delay
			} else {
				done, o.DoneAt, o.Err, deadline = true, at, "no more retries", -1
			}
		}
	}
	for _, e := range c.Events {
		fireUpTo(e.At, !e.Before)
		if done {
			break
		}
		switch e.Op {
		case "proceed":
			retries = 0
			deadline = e.At + c.Delay
		case "success":
			done, o.DoneAt, deadline = true, e.At, -1
		case "fail":
			done, o.DoneAt, o.Err, deadline = true, e.At, "errA", -1
		}
	}
	fireUpTo(c.Horizon, true)
	return o
}

const tick = time.Second

func c19run(t *testing.T, c c19case) (c19obs, string) {
	var o c19obs
	herr := ""
	res, _ := explore.Bubble(t, nil, func(s *vsched.Sched) (string, []explore.Violation) {
		o = c19obs{DoneAt: -1, Err: "nil"}
		ctx, cancel := context.WithCancel(context.Background())
		var tx txn
		nowTick := func() int {
			d := s.Now().Sub(vsched.Epoch)
			if d%tick != 0 {
				return -int(d) // off-grid instant: shows up as a mismatch
			}
			return int(d / tick)
		}
		var rt *transactions.RetryTransaction
		if c.Kind == "retry" {
			rt = transactions.NewRetryTransaction(ctx, time.Duration(c.Delay)*tick, c.Count, func(interface{}) error {
				postponed := c.Postpone&(1<<uint(len(o.Callbacks))) != 0
				o.Callbacks = append(o.Callbacks, nowTick())
				if postponed {
					return transactions.ErrRetryPostponed
				}
				return nil
			}, nil)
			tx = rt
		} else {
			tx = transactions.NewTimedTransaction(ctx, time.Duration(c.Delay)*tick, nil)
		}
		s.OnStep = func() {
			if o.DoneAt < 0 && isDone(tx) {
				o.DoneAt = nowTick()
				o.Err = errStr(tx.Err())
			}
		}
		s.Run()
		for _, e := range c.Events {
			at := vsched.Epoch.Add(time.Duration(e.At) * tick)
			if e.Before {
				s.AdvanceTo(at.Add(-time.Nanosecond), false)
			} else {
				s.AdvanceTo(at, false)
			}
			s.OnStep()
			if isDone(tx) {
				break // events after completion are C18's subject
			}
			if e.Before {
				s.AdvanceTo(at.Add(-time.Nanosecond), false)
				// move the clock to the instant without firing what is due at it
				s.SetNow(at)
			}
			switch e.Op {
			case "proceed":
				vsched.Go(func() { rt.Proceed(1, "d") })
			case "success":
				vsched.Go(func() { tx.Success() })
			case "fail":
				vsched.Go(func() { tx.Fail(errA) })
			}
			s.Run()
			s.OnStep()
		}
		s.AdvanceTo(vsched.Epoch.Add(time.Duration(c.Horizon)*tick), false)
		s.OnStep()
		cancel()
		s.OnStep = nil
		s.Run()
		return "", nil
	})
	if res.HarnessErr != "" {
		herr = res.HarnessErr
	}
	if len(res.Panics) > 0 {
		o.Err = "PANIC " + res.Panics[0]
	}
	return o, herr
}

func c19cases(maxEvents int) []c19case {
	var out []c19case
	ops := []string{"proceed", "success", "fail"}
	for count := uint(0); count <= 3; count++ {
		for _, delay := range []int{2, 3} {
			horizon := (int(count) + 2) * delay * 2
			span := (int(count) + 2) * delay
			base := c19case{Kind: "retry", Count: count, Delay: delay, Horizon: horizon}
			var rec func(evs []tev, from int)
			rec = func(evs []tev, from int) {
				c := base
				c.Events = append([]tev{}, evs...)
				out = append(out, c)
				if len(evs) >= maxEvents+1 {
					return
				}
				last := evs[len(evs)-1]
				if last.Op != "proceed" {
					return
				}
				for at := from; at <= from+span && at <= horizon-1; at++ {
					for _, op := range ops {
						for _, before := range []bool{false, true} {
							rec(append(evs, tev{at, op, before}), at)
						}
					}
				}
			}
			rec([]tev{{0, "proceed", false}}, 0)
		}
	}
	// the same histories (up to one event after the start) with some calls of the retry callback postponed
	n := len(out)
	for i := 0; i < n; i++ {
		c := out[i]
		if c.Count == 0 || len(c.Events) > 2 {
			continue
		}
		for _, mask := range []uint{1, 2, 3, 4, 5, 6} {
			v := c
			v.Postpone = mask
			v.Horizon += 3 * c.Delay
			out = append(out, v)
		}
	}
	for _, timeout := range []int{1, 3} {
		for at := 0; at <= 5; at++ {
			for _, op := range []string{"success", "fail"} {
				for _, before := range []bool{false, true} {
					out = append(out, c19case{Kind: "timed", Delay: timeout, Horizon: 7, Events: []tev{{at, op, before}}})
				}
			}
		}
		out = append(out, c19case{Kind: "timed", Delay: timeout, Horizon: 7})
	}
	return out
}

func eqObs(a, b c19obs) bool { return a.String() == b.String() }

func TestC19(t *testing.T) {
	maxEv := 2
	if explore.Tier() == "thorough" {
		maxEv = 3
	}
	cases := c19cases(maxEv)
	if explore.IsWorker() {
		explore.Serve(func(name string, payload []byte) any {
			var lohi [2]int
			jsonUnmarshal(payload, &lohi)
			type r struct {
				I        int
				Got, Ref c19obs
				Herr     string
			}
			var bad []r
			outcomes := map[string]bool{}
			for i := lohi[0]; i < lohi[1]; i++ {
				got, herr := c19run(t, cases[i])
				ref := c19ref(cases[i])
				outcomes[got.String()] = true
				if herr != "" || !eqObs(got, ref) {
					bad = append(bad, r{i, got, ref, herr})
				}
			}
			return map[string]any{"bad": bad, "outcomes": explore.SortedKeys(outcomes)}
		})
		return
	}
	rep := explore.NewReport("C19", "model_checking")
	pool := explore.NewPool("TestC19", explore.Workers())
	defer pool.Close()
	type r struct {
		I        int
		Got, Ref c19obs
		Herr     string
	}
	type resp struct {
		Bad      []r
		Outcomes []string
	}
	chunk := len(cases)/(pool.N*4) + 1
	results := make(chan resp, 1000)
	n := 0
	for lo := 0; lo < len(cases); lo += chunk {
		hi := lo + chunk
		if hi > len(cases) {
			hi = len(cases)
		}
		n++
		go func(lo, hi int) {
			var rr resp
			if err := pool.Call("range", [2]int{lo, hi}, &rr); err != nil {
				rr.Bad = append(rr.Bad, r{I: lo, Herr: err.Error()})
			}
			results <- rr
		}(lo, hi)
	}
	outcomes := map[string]bool{}
	events := 0
	for _, c := range cases {
		events += len(c.Events) + 1
	}
	for i := 0; i < n; i++ {
		rr := <-results
		for _, o := range rr.Outcomes {
			outcomes[o] = true
		}
		for _, b := range rr.Bad {
			if b.Herr != "" {
				rep.HarnessErr = b.Herr
				continue
			}
			c := cases[b.I]
			sig := c.Kind + ":"
			switch {
			case strings.HasPrefix(b.Got.Err, "PANIC"):
				sig += "panic"
			case fmt.Sprint(b.Got.Callbacks) != fmt.Sprint(b.Ref.Callbacks):
				sig += "retry-callback-instants"
			case b.Got.Err != b.Ref.Err:
				sig += "final-error"
			default:
				sig += "completion-instant"
			}
			rep.Add(explore.Violation{Property: "C19", Sig: sig, Detail: fmt.Sprintf("%s: observed %s, reference %s", c, b.Got, b.Ref), History: []string{c.String()}})
		}
	}
	samples := []string{cases[0].String(), cases[len(cases)/3].String(), cases[len(cases)-1].String()}
	rep.Coverage = map[string]any{
		"states":                        len(outcomes),
		"transitions":                   events,
		"traces_validated_against_impl": len(cases),
		"timed_histories":               len(cases),
		"exhaustive":                    true,
		"samples":                       samples,
		"rule":                          fmt.Sprintf("all timed histories on a 1-tick grid: RetryCount 0..3 x RetryDelay {2,3} ticks x Proceed@0 followed by up to %d events from {Proceed,Success,Fail} at every tick, ties with a timer instant in both orders; the histories with at most one event after the start also with calls 0, 1, 2 of the retry callback (every combination but all three) answering ErrRetryPostponed (such a call does not count, the next one comes RetryDelay later); TimedTransaction timeout {1,3} x completion {none,Success,Fail} at tick 0..5; each history is executed on the real transaction under virtual time and compared with reference arithmetic (callback instants, completion instant, final error); states = distinct observations", maxEv),
	}
	rep.Assumptions = []string{"default schedule (no preemption inside one event); interleavings are C18's subject"}
	rep.Finish()
}
