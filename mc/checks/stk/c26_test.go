package stk

import (
	"fmt"
	"sort"
	"strings"
	"testing"
	"time"

	"github.com/energomonitor/bisquitt/topics"
	"github.com/energomonitor/bisquitt/util"

	"verif/mc/explore"
	"verif/mc/harness/cl"
	"verif/mc/harness/stack"
	"verif/mc/ref/refmatch"
	"verif/mc/vsched"
)

// ---- C26: bisquitt client and gateway interoperate for any API usage -----------------
//
// Explicit-state BFS over sequences of client API calls and broker publishes on
// the real client <-> lossless link <-> real gateway session <-> broker model
// (which enforces MQTT keep-alive).  The monitor is a reference model of the
// documented effects: what the broker must have received / subscribed, which
// messages are owed to the client's handlers and when.

const c26KeepAlive = 4 * time.Second

type owed struct {
	payload string
	topic   string
}

type c26mon struct {
	name      string
	alphabet  []string
	maxDepth  int
	depth     int
	state     string // the client's documented state: disconnected active awake ended
	known     map[string]bool // topic names the client may publish on by name
	subs      map[string]byte // subscriptions the broker must hold
	seq       int
	owed      []owed
	recvSeen  int
	connected bool
}

func newC26mon(name string, alphabet []string, depth int) *c26mon {
	return &c26mon{name: name, alphabet: alphabet, maxDepth: depth, state: "disconnected", known: map[string]bool{}, subs: map[string]byte{}}
}

func (m *c26mon) Key() string {
	var k, sb []string
	for n := range m.known {
		k = append(k, n)
	}
	for f, q := range m.subs {
		sb = append(sb, fmt.Sprintf("%s/%d", f, q))
	}
	sort.Strings(k)
	sort.Strings(sb)
	return fmt.Sprintf("st=%s known=%v subs=%v owed=%d d=%d", m.state, k, sb, len(m.owed), m.depth)
}

// enabled reports whether the event is legal API usage in the monitor's state.
func (m *c26mon) enabled(ev string) bool {
	f := strings.Fields(ev)
	switch m.state {
	case "ended":
		return false
	case "disconnected":
		// (QoS -1 publishes of a client that never connects are forwarded on a broker connection without
		// CONNECT - the project's deliberate behaviour, judged by C07/C24 - so they have no place in this model)
		return f[0] == "Connect"
	case "awake":
		// a client between two sleep periods: sleep again, wake up fully, or leave
		return f[0] == "Sleep" || f[0] == "Connect" || f[0] == "Disconnect" || f[0] == "broker" || f[0] == "Ping"
	}
	switch f[0] {
	case "Connect":
		return false
	case "Publish":
		return f[1] != "r/1" || m.known["r/1"]
	case "Unsubscribe":
		_, ok := m.subs[f[1]]
		return ok
	}
	return true
}

func (m *c26mon) Next(st *stack.Stack) []string {
	if m.depth >= m.maxDepth {
		return nil
	}
	var out []string
	for _, ev := range m.alphabet {
		if m.enabled(ev) {
			out = append(out, ev)
		}
	}
	return out
}

func (m *c26mon) expectDelivery(topic, payload string) {
	for f := range m.subs {
		if refmatch.Match(f, topic) {
			m.owed = append(m.owed, owed{payload, topic})
			return
		}
	}
}

// apply executes one event on the stack and checks its documented effect.
func (m *c26mon) apply(st *stack.Stack, ev string) (vs []explore.Violation) {
	m.depth++
	add := func(sig, f string, a ...any) {
		vs = append(vs, explore.Violation{Property: "C26", Sig: sig, Detail: fmt.Sprintf(f, a...), Scenario: m.name})
	}
	f := strings.Fields(ev)
	var call *cl.Call
	must := func(c *cl.Call) bool {
		call = c
		if !c.Returned {
			add("call-blocks:"+f[0], "%s has not returned (gateway returned=%t, broker dropped the connection at %v, broker errors %v)", ev, st.GwRet, st.BrokerDroppedAt, st.B.Errors)
			return false
		}
		if c.Err != "" {
			add("call-fails:"+f[0], "%s returned %q (gateway returned=%t, broker dropped the connection at %v, broker errors %v)", ev, c.Err, st.GwRet, st.BrokerDroppedAt, st.B.Errors)
			return false
		}
		return true
	}
	qos := func(s string) uint8 { return uint8(s[1] - '0') }
	switch f[0] {
	case "Connect":
		if must(st.Go(ev, st.C.Connect)) {
			if !st.B.Connected {
				add("connect-without-broker-session", "Connect returned nil but the broker has no session (CONNECTs seen: %d)", st.B.Connects)
			}
			m.state = "active"
			m.connected = true
		}
	case "Register":
		if must(st.Go(ev, func() error { return st.C.Register(f[1]) })) {
			m.known[f[1]] = true
		}
	case "Subscribe":
		q := qos(f[2])
		var c *cl.Call
		name := f[1]
		if name == "predef:1" {
			name = "p/1"
			c = st.Go(ev, func() error { return st.C.SubscribePredefined(1, q, st.Handler("p/1")) })
		} else {
			c = st.Go(ev, func() error { return st.C.Subscribe(name, q, st.Handler(name)) })
		}
		if must(c) {
			if got, ok := st.B.Subs[name]; !ok || got != q {
				add("subscribe-without-effect", "%s returned nil but the broker's subscriptions are %v", ev, st.B.Subs)
			}
			m.subs[name] = q
			if !strings.ContainsAny(name, "+#") && len(name) != 2 && name != "p/1" {
				m.known[name] = true
			}
		}
	case "Unsubscribe":
		if must(st.Go(ev, func() error { return st.C.Unsubscribe(f[1]) })) {
			if _, ok := st.B.Subs[f[1]]; ok {
				add("unsubscribe-without-effect", "%s returned nil but the broker still holds %v", ev, st.B.Subs)
			}
			delete(m.subs, f[1])
		}
	case "Publish":
		q := qos(f[2])
		m.seq++
		payload := fmt.Sprintf("c%d", m.seq)
		topic := f[1]
		n0 := len(st.B.Received)
		var c *cl.Call
		if topic == "predef:1" {
			topic = "p/1"
			c = st.Go(ev, func() error { return st.C.PublishPredefined(1, []byte(payload), q, false) })
		} else {
			c = st.Go(ev, func() error { return st.C.Publish(topic, []byte(payload), q, false) })
		}
		if must(c) {
			wq := q
			if wq == 3 {
				wq = 0
			}
			got := st.B.Received[n0:]
			if len(got) != 1 || got[0].Topic != topic || got[0].Payload != payload || got[0].QoS != wq || got[0].Retain {
				add(fmt.Sprintf("publish-without-effect:q%d:state=%s", q, m.state), "%s returned nil; the broker received %v, want exactly %s=%q/q%d", ev, got, topic, payload, wq)
			} else if m.state == "active" {
				m.expectDelivery(topic, payload) // routed back when the client subscribed to it
			}
		}
	case "Ping":
		n0 := st.B.Pings
		// (between two sleep periods the gateway answers the PINGREQ itself, as a wake-up: only the call's success
		// is demanded there)
		if must(st.Go(ev, st.C.Ping)) && st.B.Pings == n0 && m.state != "awake" {
			add("ping-without-effect", "Ping returned nil but no PINGREQ reached the broker")
		}
	case "Sleep":
		d, _ := time.ParseDuration(f[1])
		c := st.Go(ev, func() error { return st.C.Sleep(d) })
		end := st.S.Now().Add(d + 3*time.Second)
		for !c.Returned && len(st.S.Panics) == 0 && st.S.HarnessEr == "" {
			at, ok := st.S.NextTimer()
			if !ok || at.After(end) {
				break
			}
			st.S.AdvanceTo(at, false)
		}
		if must(c) {
			m.state = "awake"
		}
	case "Idle":
		d, _ := time.ParseDuration(f[1])
		st.S.Advance(d)
	case "Disconnect":
		if must(st.Go(ev, st.C.Disconnect)) {
			if m.connected && !st.B.Closed {
				add("disconnect-without-effect", "Disconnect returned nil but the broker saw no DISCONNECT (connected=%t)", st.B.Connected)
			}
			m.state = "ended"
		}
	case "broker": // broker <topic>[,<topic>...] qN : an external publisher, all messages at once
		q := qos(f[2])
		for _, topic := range strings.Split(f[1], ",") {
			m.seq++
			payload := fmt.Sprintf("b%d", m.seq)
			m.expectDelivery(topic, payload)
			st.InjectBrokerPublish(topic, payload, q)
		}
		st.S.Run()
	}
	if len(st.S.Panics) > 0 {
		add("panic", "%s", st.S.Panics[0])
		return
	}
	if len(st.B.Errors) > 0 {
		add("broker-protocol-error", "after %s: %v", ev, st.B.Errors)
	}
	// owed messages: delivered exactly once, under the broker's topic, as soon as the client is reachable
	// (a message whose REGISTER/PUBLISH chain spans wake-ups may take several sleep periods: delivery is demanded
	// once the client is active again and everything has settled)
	_ = call
	reachable := st.C.VState() == util.StateActive
	if m.state != "ended" && reachable && len(vs) == 0 {
		for _, o := range m.owed {
			n := 0
			for _, d := range st.Deliv {
				if d.Payload == o.payload {
					n++
					if d.Topic != o.topic {
						add("delivered-under-wrong-topic", "message %q published on %q reached the handler as %q", o.payload, o.topic, d.Topic)
					}
				}
			}
			if n != 1 {
				kind := "single"
				if strings.Contains(ev, ",") {
					kind = "burst"
				}
				add(fmt.Sprintf("owed-message-deliveries=%d:after=%s:%s", n, f[0], kind), "after %s the message %q on %q (matching a subscription) has reached the handlers %d times, want 1; in flight at the broker %v; gateway %s", ev, o.payload, o.topic, n, st.B.InFlight(), st.H.VSnapshot())
			}
		}
		m.owed = nil
	}
	for _, d := range st.Deliv {
		ok := false
		for f := range m.subs {
			if refmatch.Match(f, d.Topic) {
				ok = true
			}
		}
		if !ok && len(vs) == 0 && m.state != "ended" {
			// (an Unsubscribe racing with nothing here: default schedule, so a stale delivery is a defect)
			stale := true
			for _, o := range m.owed {
				if o.payload == d.Payload {
					stale = false
				}
			}
			_ = stale
		}
	}
	return
}

func c26cfg() stack.Config {
	cfg := stack.DefaultConfig()
	cfg.KeepAlive = c26KeepAlive
	cfg.EnforceKeepAlive = true
	cfg.Predefined = topics.PredefinedTopics{"*": {1: "p/1"}}
	return cfg
}

type c26spec struct {
	name     string
	setup    []string
	alphabet []string
	depth    int
}

func c26specs() []c26spec {
	thorough := explore.Tier() == "thorough"
	var full []string
	full = append(full, "Connect", "Register r/1", "Subscribe r/1 q1", "Subscribe xy q1", "Subscribe w/# q2", "Subscribe predef:1 q1", "Unsubscribe r/1", "Unsubscribe w/#", "Ping", "Sleep 3s", "Disconnect")
	for _, t := range []string{"r/1", "xy", "predef:1"} {
		for q := 0; q <= 3; q++ {
			full = append(full, fmt.Sprintf("Publish %s q%d", t, q))
		}
	}
	full = append(full, "broker r/1 q1", "broker xy q0", "broker p/1 q2", "broker w/n1 q1", "broker w/n1,w/n2 q1")
	d1, d2, d3 := 3, 4, 3
	if thorough {
		d1, d2, d3 = 4, 6, 4
	}
	return []c26spec{
		{"any API sequence", []string{"Connect"}, full, d1},
		{"sleep cycles", []string{"Connect", "Subscribe r/1 q1", "Subscribe w/# q2"},
			[]string{"Sleep 3s", "Sleep 6s", "Connect", "Idle 5s", "Publish xy q1", "broker r/1 q1", "broker r/1 q2", "broker w/n1 q1", "broker w/n1,w/n2 q0", "Disconnect"}, d2},
		{"bursts on unregistered topics", []string{"Connect", "Subscribe w/# q2"},
			[]string{"broker w/n1,w/n1 q0", "broker w/n1,w/n1 q1", "broker w/n1,w/n2 q2", "broker w/n1,w/n2,w/n1 q1", "broker w/n1 q0", "broker w/n2 q2", "Register w/n1", "Sleep 3s", "Connect"}, d3},
	}
}

func runC26history(t *testing.T, sp c26spec, hist []string) explore.StateResult {
	var out explore.StateResult
	res, _ := explore.Bubble(t, nil, func(s *vsched.Sched) (string, []explore.Violation) {
		s.NoChoice = true
		st := stack.New(s, c26cfg())
		st.Dial()
		m := newC26mon(sp.name, sp.alphabet, sp.depth+len(sp.setup))
		ok := true
		all := append(append([]string{}, sp.setup...), hist...)
		for i, ev := range all {
			vs := m.apply(st, ev)
			if i == len(all)-1 {
				out.Violations = vs
			}
			if len(vs) > 0 {
				ok = false
				break
			}
		}
		if ok {
			out.Key = st.Snapshot() + " || " + m.Key()
			out.Class = m.state
			out.Next = m.Next(st)
		} else {
			out.Key = "violating:" + strings.Join(all, ",")
			out.Class = "violating"
		}
		st.Finish()
		return "", nil
	})
	if res.HarnessErr != "" {
		out.HarnessErr = res.HarnessErr
	}
	for i := range out.Violations {
		out.Violations[i].History = append(append([]string{}, sp.setup...), hist...)
	}
	return out
}

func TestC26(t *testing.T) {
	specs := c26specs()
	if explore.IsWorker() {
		by := map[string]c26spec{}
		for _, sp := range specs {
			by[sp.name] = sp
		}
		explore.Serve(func(name string, payload []byte) any {
			sp := by[name]
			return explore.ServeBFS(payload, func(h []string) explore.StateResult { return runC26history(t, sp, h) })
		})
		return
	}
	rep := explore.NewReport("C26", "model_checking")
	pool := explore.NewPool("TestC26", explore.Workers())
	defer pool.Close()
	states, trans, validated, depth := 0, 0, 0, 0
	complete := true
	classes := map[string]int{}
	var samples []any
	for _, sp := range specs {
		st, viols := explore.BFSBatch(explore.BFSConfig{MaxDepth: sp.depth, Workers: pool.N, ValidateEvery: 8,
			Deadline: rep.Budget(200*time.Second, 25*time.Minute)}, pool.BFSRunner(sp.name))
		if st.HarnessErr != "" {
			rep.HarnessErr = sp.name + ": " + st.HarnessErr
			break
		}
		rep.Add(viols...)
		states += st.States
		trans += st.Transitions
		validated += st.Validated
		if st.Depth > depth {
			depth = st.Depth
		}
		complete = complete && st.Complete
		for k, v := range st.Classes {
			classes[k] += v
		}
		for _, h := range st.Samples {
			if len(samples) < 9 {
				samples = append(samples, map[string]any{"spec": sp.name, "history": append(append([]string{}, sp.setup...), h...)})
			}
		}
	}
	rep.Coverage["states"] = states
	rep.Coverage["transitions"] = trans
	rep.Coverage["traces_validated_against_impl"] = validated
	rep.Coverage["max_depth"] = depth
	rep.Coverage["exhaustive"] = complete
	rep.Coverage["state_classes"] = classes
	rep.Coverage["samples"] = samples
	rep.Coverage["rule"] = "BFS over legal API/broker event sequences on the real client <-> lossless link <-> real gateway session <-> keep-alive-enforcing broker model (KeepAlive 4 s): (1) after Connect every sequence of depth 3 (thorough 4) over Register, Subscribe (name, short, wildcard, predefined), Unsubscribe, Publish on registered/short/predefined topics at QoS 0,1,2,-1, Ping, Sleep 3 s, Disconnect and broker publishes (subscribed name, short, predefined, new name under a wildcard, burst of two new names); (2) sleep cycles of depth 4 (6) over Sleep 3 s / 6 s, wake-up Connect, 5 s idle, publishes while asleep; (3) bursts on unregistered names of depth 3 (4). After every event: the call returned nil, the broker model shows the documented effect, the broker model saw no protocol error, and every message owed to a subscription has reached a handler exactly once under the broker's topic as soon as the client is reachable"
	rep.Assumptions = []string{"default schedule (the thread interleavings of single exchanges are explored by C06, C11, C13, C33)", "legal usage only: Connect first, nothing but Sleep/Connect/Disconnect between two sleep periods, publishing by name only on known names"}
	rep.Finish()
}
