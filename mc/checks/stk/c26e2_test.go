package stk

import (
	"fmt"
	"strings"
	"testing"
	"time"

	"verif/mc/explore"
	"verif/mc/harness/stack"
	"verif/mc/vsched"
)

// ---- C26 (schedules): an API call concurrent with broker traffic or with another API call ----
//
// On the whole real stack two things start at the same moment - an API call and
// a burst of broker messages, or two API calls from two application threads -
// and all thread interleavings of client and gateway within the preemption
// bound are explored.  Oracle as in the BFS part: the calls return nil, the
// broker model saw the documented effect and no protocol error, every owed
// message reached a handler exactly once.

type c26e2sc struct {
	name   string
	setup  func(st *stack.Stack)
	calls  map[string]func(st *stack.Stack) error
	order  []string
	broker []string // topics published (QoS 1) at the same moment
	owed   []string // topics whose messages must reach a handler exactly once
	effect func(st *stack.Stack) string
}

func c26e2scenarios() []c26e2sc {
	sub := func(f string, q uint8) func(st *stack.Stack) {
		return func(st *stack.Stack) { st.Go("Subscribe "+f, func() error { return st.C.Subscribe(f, q, st.Handler(f)) }) }
	}
	both := func(fs ...func(st *stack.Stack)) func(st *stack.Stack) {
		return func(st *stack.Stack) {
			for _, f := range fs {
				f(st)
			}
		}
	}
	return []c26e2sc{
		{name: "Publish q1 || broker burst on new topics", setup: sub("w/#", 2),
			calls: map[string]func(st *stack.Stack) error{"Publish": func(st *stack.Stack) error { return st.C.Publish("xy", []byte("c"), 1, false) }}, order: []string{"Publish"},
			broker: []string{"w/n1", "w/n2", "w/n1"}, owed: []string{"w/n1", "w/n2", "w/n1"},
			effect: func(st *stack.Stack) string {
				for _, m := range st.B.Received {
					if m.Topic == "xy" && m.Payload == "c" {
						return ""
					}
				}
				return fmt.Sprintf("the broker never received the published message (received %v)", st.B.Received)
			}},
		{name: "Register r/1 || Subscribe r/1 (two application threads)", setup: func(st *stack.Stack) {},
			calls: map[string]func(st *stack.Stack) error{
				"Register":  func(st *stack.Stack) error { return st.C.Register("r/1") },
				"Subscribe": func(st *stack.Stack) error { return st.C.Subscribe("r/1", 1, st.Handler("r/1")) }},
			order: []string{"Register", "Subscribe"}, broker: nil, owed: nil,
			effect: func(st *stack.Stack) string {
				if _, ok := st.B.Subs["r/1"]; !ok {
					return fmt.Sprintf("the broker holds no subscription to r/1 (%v)", st.B.Subs)
				}
				// the registration must be usable afterwards, in both directions
				if c := st.Go("Publish r/1", func() error { return st.C.Publish("r/1", []byte("after"), 1, false) }); !c.Returned || c.Err != "" {
					return fmt.Sprintf("Publish on r/1 after the two calls: returned=%t err=%q", c.Returned, c.Err)
				}
				n := 0
				for _, d := range st.Deliv {
					if d.Payload == "after" && d.Topic == "r/1" {
						n++
					}
				}
				if n != 1 {
					return fmt.Sprintf("the message published on r/1 came back to the handler %d times, want 1", n)
				}
				return ""
			}},
		{name: "Sleep(1s) || broker message", setup: both(sub("r/1", 1)),
			calls: map[string]func(st *stack.Stack) error{"Sleep": func(st *stack.Stack) error { return st.C.Sleep(time.Second) }}, order: []string{"Sleep"},
			broker: []string{"r/1"}, owed: []string{"r/1"}, effect: func(st *stack.Stack) string { return "" }},
		{name: "Publish q2 || Ping (two application threads) || broker message", setup: sub("r/1", 2),
			calls: map[string]func(st *stack.Stack) error{
				"Publish": func(st *stack.Stack) error { return st.C.Publish("xy", []byte("c"), 2, false) },
				"Ping":    func(st *stack.Stack) error { return st.C.Ping() }},
			order: []string{"Publish", "Ping"}, broker: []string{"r/1"}, owed: []string{"r/1"}, effect: func(st *stack.Stack) string { return "" }},
	}
}

func runC26e2(t *testing.T, sc c26e2sc, prefix []int) explore.ExecResult {
	res, _ := explore.Bubble(t, prefix, func(s *vsched.Sched) (string, []explore.Violation) {
		s.NoChoice = true
		cfg := c26cfg()
		cfg.KeepAlive = 60 * time.Second
		cfg.EnforceKeepAlive = false
		st := stack.New(s, cfg)
		st.Dial()
		st.Go("Connect", st.C.Connect)
		sc.setup(st)
		for _, c := range st.Calls {
			if !c.Returned || c.Err != "" {
				return "setup failed", []explore.Violation{{Property: "C26", Sig: "e2:setup:" + c.Name, Detail: c.Err}}
			}
		}
		s.NoChoice = false
		// everything starts at the same moment: the broker's messages are queued, the calls are spawned, then all runs
		for i, topic := range sc.broker {
			st.InjectBrokerPublish(topic, fmt.Sprintf("b%d", i), 1)
		}
		var calls []*stackCall
		for _, name := range sc.order {
			calls = append(calls, goNoRun(st, name, sc.calls[name]))
		}
		s.Run()
		// timers (sleep period, retransmissions that a delayed thread may have caused)
		end := s.Now().Add(8 * time.Second)
		for len(s.Panics) == 0 && s.HarnessEr == "" {
			done := true
			for _, c := range calls {
				done = done && c.returned
			}
			at, ok := s.NextTimer()
			if (done && len(sc.order) > 0 && !strings.HasPrefix(sc.name, "Sleep")) || !ok || at.After(end) {
				break
			}
			s.AdvanceTo(at, false)
		}
		s.NoChoice = true
		if strings.HasPrefix(sc.name, "Sleep") {
			// delivery is owed once the client is active again
			st.Go("Connect", st.C.Connect)
		}
		var vs []explore.Violation
		add := func(sig, f string, a ...any) {
			vs = append(vs, explore.Violation{Property: "C26", Sig: "e2:" + sig, Detail: sc.name + ": " + fmt.Sprintf(f, a...), Scenario: sc.name})
		}
		var outs []string
		switch {
		case len(s.Panics) > 0:
			add("panic", "%s", s.Panics[0])
		default:
			for _, c := range calls {
				outs = append(outs, fmt.Sprintf("%s:%t:%s", c.name, c.returned, c.err))
				if !c.returned {
					add("call-blocks:"+c.name, "%s has not returned; parked %v", c.name, s.ParkedLabels())
				} else if c.err != "" {
					add("call-fails:"+c.name, "%s returned %q", c.name, c.err)
				}
			}
			if len(vs) == 0 {
				if why := sc.effect(st); why != "" {
					add("effect-missing", "%s", why)
				}
				for i, topic := range sc.owed {
					n := 0
					for _, d := range st.Deliv {
						if d.Payload == fmt.Sprintf("b%d", i) {
							n++
							if d.Topic != topic {
								add("delivered-under-wrong-topic", "message b%d published on %q reached the handler as %q", i, topic, d.Topic)
							}
						}
					}
					if n != 1 {
						add(fmt.Sprintf("owed-message-deliveries=%d", n), "broker message b%d on %q reached the handlers %d times, want 1 (gateway %s)", i, topic, n, st.H.VSnapshot())
					}
				}
				if len(st.B.Errors) > 0 {
					add("broker-protocol-error", "%v", st.B.Errors)
				}
			}
		}
		out := fmt.Sprintf("%v deliv=%d", outs, len(st.Deliv))
		st.Finish()
		return out, vs
	})
	return res
}

type stackCall struct {
	name     string
	returned bool
	err      string
}

// goNoRun spawns an API call as a thread without running the scheduler (the caller starts several things at once).
func goNoRun(st *stack.Stack, name string, f func(st *stack.Stack) error) *stackCall {
	c := &stackCall{name: name}
	vsched.Go(func() {
		err := f(st)
		c.returned = true
		if err != nil {
			c.err = err.Error()
		}
	})
	return c
}

func TestC26e2(t *testing.T) {
	var scs []explore.Scenario
	for _, sc := range c26e2scenarios() {
		sc := sc
		scs = append(scs, explore.Scenario{Name: sc.name, Run: func(p []int) explore.ExecResult { return runC26e2(t, sc, p) }})
	}
	if explore.IsWorker() {
		explore.ServeScenarios(scs)
		return
	}
	rep := explore.NewReport("C26", "model_checking")
	explore.RunScenarios(rep, scs, explore.ScenarioOpts{Test: "TestC26e2", QuickBound: 0, ThoroughFrom: 0, ThoroughMax: 2,
		QuickBudget: 60 * time.Second, ThoroughBudge: 15 * time.Minute})
	rep.Coverage["rule"] = "schedule part: on the whole real stack an API call and a burst of broker messages, or two API calls of two application threads, start at the same moment (Publish q1 with a burst on new topics; Register with Subscribe of the same name; Sleep with a broker message; Publish q2 with Ping and a broker message); all thread interleavings of client and gateway within the preemption bound; same oracle as the BFS part"
	rep.Assumptions = []string{"schedule part: preemption bound 0 = every order in which runnable threads can be picked whenever the running one blocks, no preemption of a running thread (thorough up to 2 preemptions); lossless link"}
	rep.Finish()
}
