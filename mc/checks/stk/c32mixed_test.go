package stk

import (
	"fmt"
	"strings"
	"testing"

	"github.com/energomonitor/bisquitt/topics"

	"verif/mc/explore"
	"verif/mc/harness/stack"
	"verif/mc/vsched"
)

// ---- C32, second part: all kinds of topic ids in ONE session, numbers that coincide -------
//
// The first part gives every operation a fresh session.  Here one session uses predefined
// ids, 2-byte names and a registered name side by side, and the configuration is chosen so
// that the 16-bit numbers coincide across kinds: predefined id 0x6162 ("p/1") is also the
// encoding of the short name "ab", predefined id 0x6261 ("p/2") that of "ba".  Every order
// of the five names x QoS {0,1}: broker messages must reach the handler under the broker's
// name and client publishes must reach the broker under the name the client meant,
// whatever the session has seen before.

type c32name struct {
	name string
	kind string // predefined short plain
	id   uint16
}

func c32mixedNames() []c32name {
	return []c32name{
		{"p/1", "predefined", 0x6162},
		{"ab", "short", 0},
		{"p/2", "predefined", 0x6261},
		{"ba", "short", 0},
		{"r/x", "plain", 0},
	}
}

func permutations(n int) [][]int {
	var out [][]int
	var rec func(cur []int, used []bool)
	rec = func(cur []int, used []bool) {
		if len(cur) == n {
			out = append(out, append([]int{}, cur...))
			return
		}
		for i := 0; i < n; i++ {
			if !used[i] {
				used[i] = true
				rec(append(cur, i), used)
				used[i] = false
			}
		}
	}
	rec(nil, make([]bool, n))
	return out
}

func runC32mixed(t *testing.T, order []int, qos byte) (string, []explore.Violation, string) {
	names := c32mixedNames()
	res, _ := explore.Bubble(t, nil, func(s *vsched.Sched) (string, []explore.Violation) {
		s.NoChoice = true
		cfg := c16cfg()
		cfg.Predefined = topics.PredefinedTopics{"*": {0x6162: "p/1", 0x6261: "p/2"}}
		st := stack.New(s, cfg)
		st.Dial()
		var v []explore.Violation
		var seq []string
		for _, i := range order {
			seq = append(seq, names[i].name)
		}
		ctx := fmt.Sprintf("one session, predefined {0x6162:p/1 0x6261:p/2} (the encodings of the short names ab and ba), order %v, QoS %d", seq, qos)
		add := func(sig, f string, a ...any) {
			v = append(v, explore.Violation{Property: "C32", Sig: sig, Detail: ctx + ": " + fmt.Sprintf(f, a...)})
		}
		calls := []struct {
			n string
			f func() error
		}{{"Connect", st.C.Connect}}
		for _, nm := range names {
			nm := nm
			switch nm.kind {
			case "predefined":
				calls = append(calls, struct {
					n string
					f func() error
				}{"SubscribePredefined " + nm.name, func() error { return st.C.SubscribePredefined(nm.id, 1, st.Handler("h:"+nm.name)) }})
			default:
				calls = append(calls, struct {
					n string
					f func() error
				}{"Subscribe " + nm.name, func() error { return st.C.Subscribe(nm.name, 1, st.Handler("h:"+nm.name)) }})
			}
		}
		for _, c := range calls {
			if r := st.Go(c.n, c.f); !r.Returned || r.Err != "" {
				add("setup:"+strings.SplitN(c.n, " ", 2)[0], "%s failed: returned=%t %q", c.n, r.Returned, r.Err)
				st.Finish()
				return "setup failed", v
			}
		}
		var log []string
		// broker -> client, in the given order
		for k, i := range order {
			nm := names[i]
			payload := fmt.Sprintf("b%d", k)
			n0 := len(st.Deliv)
			st.BrokerPublish(nm.name, payload, qos)
			got := st.Deliv[n0:]
			log = append(log, fmt.Sprintf("%s->%v", nm.name, got))
			if len(got) != 1 || got[0].Topic != nm.name || got[0].Payload != payload {
				add("mixed-session:broker-message-delivered-under-other-name:"+nm.kind, "broker message %d on %q: the client's handlers got %v", k+1, nm.name, got)
			}
		}
		// client -> broker, in the given order
		for k, i := range order {
			nm := names[i]
			payload := fmt.Sprintf("c%d", k)
			n0 := len(st.B.Received)
			var c interface{ String() string }
			_ = c
			var call = st.Go("Publish "+nm.name, func() error {
				if nm.kind == "predefined" {
					return st.C.PublishPredefined(nm.id, []byte(payload), qos, false)
				}
				return st.C.Publish(nm.name, []byte(payload), qos, false)
			})
			got := st.B.Received[n0:]
			log = append(log, fmt.Sprintf("pub %s->%v", nm.name, got))
			if len(got) != 1 || got[0].Topic != nm.name || got[0].Payload != payload {
				add("mixed-session:publish-arrives-under-other-name:"+nm.kind, "client publish %d meaning %q: the broker received %v (call returned=%t %q)", k+1, nm.name, got, call.Returned, call.Err)
			}
		}
		if len(s.Panics) > 0 {
			add("panic", "%s", s.Panics[0])
		}
		if len(st.B.Errors) > 0 {
			add("broker-protocol-error", "%v", st.B.Errors)
		}
		st.Finish()
		return strings.Join(log, ";"), v
	})
	return res.Outcome, res.Violations, res.HarnessErr
}

func TestC32mixed(t *testing.T) {
	rep := explore.NewReport("C32", "exploration")
	perms := permutations(len(c32mixedNames()))
	outcomes := map[string]bool{}
	n := 0
	seen := map[string]bool{}
	for _, qos := range []byte{0, 1} {
		for _, p := range perms {
			out, vs, herr := runC32mixed(t, p, qos)
			if herr != "" {
				rep.HarnessErr = herr
			}
			n++
			outcomes[out] = true
			for _, v := range vs {
				if !seen[v.Sig] { // one witness per signature
					seen[v.Sig] = true
					rep.Add(v)
				}
			}
		}
	}
	rep.Coverage["evaluations"] = n
	rep.Coverage["distinct_nontrivial"] = len(outcomes)
	rep.Coverage["exhaustive"] = true
	rep.Coverage["rule"] = "second part: one real client + gateway session + broker model that subscribes to predefined ids 0x6162 (p/1) and 0x6261 (p/2), to the 2-byte names ab and ba (whose encodings are those numbers) and to the plain name r/x; then broker messages on the five names and client publishes meaning the five names, in each of the 120 orders x QoS {0,1}: every message must arrive under the right name whatever the session has handled before"
	rep.Assumptions = []string{"second part: default schedule, lossless link"}
	rep.Finish()
}
