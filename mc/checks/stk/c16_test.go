package stk

import (
	"fmt"
	"strings"
	"testing"
	"time"

	"verif/mc/explore"
	"verif/mc/harness/stack"
	"verif/mc/ref/refsn"
	"verif/mc/vsched"
)

// ---- C16: QoS 1/2 delivery to clients survives datagram loss -------------------------
//
// Real client <-> faulty link <-> real gateway session <-> broker model.  The
// broker publishes one QoS 1 / QoS 2 message on a topic the client knows or on
// a new topic under a wildcard (REGISTER step first).  For every datagram in
// either direction the link delivers it (default), drops it or duplicates it;
// all patterns within the deviation bound are explored, the number of drops
// per exchange step (REGISTER/REGACK, PUBLISH/PUBACK|PUBREC, PUBREL/PUBCOMP)
// never exceeding RetryCount (the property's premise).  Separate scenarios drop
// every transmission of one step (budget exceeded).

type c16flow struct {
	name   string
	topic  string
	qos    byte
	second bool // a second message on the same topic right behind the first
}

func c16flows() []c16flow {
	return []c16flow{
		{"q1 on a subscribed topic", "r/1", 1, false},
		{"q2 on a subscribed topic", "r/1", 2, false},
		{"q1 on a new topic under a wildcard", "w/n", 1, false},
		{"q2 on a new topic under a wildcard", "w/n", 2, false},
		{"q2 on a short topic", "xy", 2, false},
		{"two q1 messages on one new topic under a wildcard", "w/n", 1, true},
	}
}

func c16cfg() stack.Config {
	cfg := stack.DefaultConfig()
	cfg.KeepAlive = 120 * time.Second // beyond the horizon: no keep-alive traffic in these flows
	return cfg
}

func stepOf(p refsn.Pkt) string {
	switch p.Type {
	case refsn.REGISTER, refsn.REGACK:
		return "register"
	case refsn.PUBLISH, refsn.PUBACK, refsn.PUBREC:
		return "publish"
	case refsn.PUBREL, refsn.PUBCOMP:
		return "release"
	}
	return ""
}

// c16patterns: per exchange step (register, publish, release), a gateway->client datagrams are lost first and
// then b acknowledgements of the client, a+b <= RetryCount: every combination over the three steps.  A loss in
// one step must not eat the budget of the next one.
type c16pattern [3][2]int

func c16patterns(budget int) []c16pattern {
	var pairs [][2]int
	for a := 0; a <= budget; a++ {
		for b := 0; a+b <= budget; b++ {
			pairs = append(pairs, [2]int{a, b})
		}
	}
	var out []c16pattern
	for _, r := range pairs {
		for _, p := range pairs {
			for _, l := range pairs {
				out = append(out, c16pattern{r, p, l})
			}
		}
	}
	return out
}

var c16steps = map[string]int{"register": 0, "publish": 1, "release": 2}

// dropAll: "" = fault choices within the budget; "pattern" = one of c16patterns, chosen by the explorer;
// otherwise every gateway->client datagram of that step is dropped
func runC16(t *testing.T, f c16flow, dropAll string, prefix []int) explore.ExecResult {
	res, _ := explore.Bubble(t, prefix, func(s *vsched.Sched) (string, []explore.Violation) {
		s.NoChoice = true
		cfg := c16cfg()
		st := stack.New(s, cfg)
		st.Dial()
		st.Go("Connect", st.C.Connect)
		st.Go("Subscribe r/1", func() error { return st.C.Subscribe("r/1", 2, st.Handler("r/1")) })
		st.Go("Subscribe w/#", func() error { return st.C.Subscribe("w/#", 2, st.Handler("w/#")) })
		st.Go("Subscribe xy", func() error { return st.C.Subscribe("xy", 2, st.Handler("xy")) })
		for _, c := range st.Calls {
			if !c.Returned || c.Err != "" {
				return "setup failed", []explore.Violation{{Property: "C16", Sig: "setup:" + c.Name, Detail: fmt.Sprintf("setup call %s: returned=%t err=%q", c.Name, c.Returned, c.Err)}}
			}
		}
		st.TakeClient()
		st.TakeGateway()
		drops := map[string]int{}
		dups := map[string]int{}
		var faults []string
		budget := int(cfg.RetryCount)
		var pat c16pattern
		if dropAll == "pattern" {
			ps := c16patterns(budget)
			s.NoChoice = false
			pat = ps[s.Choose(len(ps), "loss pattern")]
			s.NoChoice = true
		}
		seen := map[string]int{}
		filter := func(dir string) func(p refsn.Pkt, raw []byte) [][]byte {
			return func(p refsn.Pkt, raw []byte) [][]byte {
				step := stepOf(p)
				if step == "" {
					return [][]byte{raw}
				}
				if dropAll == "pattern" {
					k := 0
					if dir == "cl->gw" {
						k = 1
					}
					seen[dir+step]++
					if seen[dir+step] <= pat[c16steps[step]][k] {
						drops[step]++
						faults = append(faults, "drop "+dir+" "+p.Name())
						return nil
					}
					return [][]byte{raw}
				}
				if dropAll != "" {
					if dir == "gw->cl" && step == dropAll {
						drops[step]++
						return nil
					}
					return [][]byte{raw}
				}
				n := 3
				if drops[step] >= budget {
					n = 1
				}
				if dups[step] >= budget && n == 3 {
					n = 2
				}
				switch s.Choose(n, dir+" "+p.Name()) {
				case 1:
					drops[step]++
					faults = append(faults, "drop "+dir+" "+p.Name())
					return nil
				case 2:
					dups[step]++
					faults = append(faults, "dup "+dir+" "+p.Name())
					return [][]byte{raw, raw}
				}
				return [][]byte{raw}
			}
		}
		st.FilterToClient(filter("gw->cl"))
		st.FilterToGateway(filter("cl->gw"))
		s.NoChoice = false
		routed := st.BrokerPublish(f.topic, "m", f.qos)
		payloads := []string{"m"}
		if f.second {
			routed = st.BrokerPublish(f.topic, "n", f.qos) && routed
			payloads = append(payloads, "n")
		}
		end := vsched.Epoch.Add(15 * time.Second)
		for len(s.Panics) == 0 && s.HarnessEr == "" {
			at, ok := s.NextTimer()
			if !ok || at.After(end) {
				break
			}
			s.AdvanceTo(at, false)
		}
		s.NoChoice = true
		var vs []explore.Violation
		ctx := fmt.Sprintf("%s (link: %s)", f.name, strings.Join(faults, ", "))
		if dropAll != "" && dropAll != "pattern" {
			ctx = fmt.Sprintf("%s (link drops every gateway->client datagram of the %s step)", f.name, dropAll)
		}
		add := func(sig, format string, a ...any) {
			vs = append(vs, explore.Violation{Property: "C16", Sig: sig, Detail: ctx + ": " + fmt.Sprintf(format, a...), Scenario: f.name})
		}
		gwOut := st.TakeGateway()
		clOut := st.TakeClient()
		if len(s.Panics) > 0 {
			add("panic", "%s", s.Panics[0])
		}
		if !routed {
			add("setup:not-routed", "the broker model did not route the message (subscriptions %v)", st.B.Subs)
		}
		// retransmissions repeat message id and payload; PUBLISH retransmissions carry DUP; at most RetryCount retransmissions
		first := map[string]refsn.Pkt{}
		count := map[string]int{}
		for _, d := range gwOut {
			step := stepOf(d.P)
			if step == "" || d.P.Type == refsn.PUBACK || d.P.Type == refsn.PUBREC || d.P.Type == refsn.PUBCOMP || d.P.Type == refsn.REGACK {
				continue
			}
			step = fmt.Sprintf("%s#%d", step, d.P.MsgID) // one exchange step = (step, message id)
			count[step]++
			o, seen := first[step]
			if !seen {
				first[step] = d.P
				if d.P.Type == refsn.PUBLISH && d.P.DUP {
					add("first-transmission-has-dup", "first PUBLISH to the client has DUP set")
				}
				continue
			}
			if d.P.MsgID != o.MsgID || string(d.P.Data) != string(o.Data) || d.P.TopicID != o.TopicID || d.P.Str != o.Str || d.P.QoS != o.QoS {
				add("retransmission-differs:"+d.P.Name(), "retransmitted %v differs from the original %v", d.P, o)
			}
			if d.P.Type == refsn.PUBLISH && !d.P.DUP {
				add("retransmission-without-dup:PUBLISH", "retransmitted PUBLISH (transmission %d) has DUP=0", count[step])
			}
		}
		for step, n := range count {
			if n > budget+1 {
				add("more-retransmissions-than-budget:"+step, "%d transmissions of the %s step, RetryCount %d", n, step, budget)
			}
		}
		if dropAll != "" && dropAll != "pattern" {
			seen := 0
			for step, n := range count {
				if !strings.HasPrefix(step, dropAll+"#") {
					continue
				}
				seen++
				if n != budget+1 {
					add(fmt.Sprintf("unanswered-step-transmissions:%s:%d", dropAll, n), "the gateway transmitted the unanswered %s step (%s) %d times, want exactly 1 + RetryCount = %d and then stop", dropAll, step, n, budget+1)
				}
			}
			if seen == 0 {
				add(fmt.Sprintf("unanswered-step-transmissions:%s:0", dropAll), "the gateway never transmitted the %s step", dropAll)
			}
		} else if len(s.Panics) == 0 {
			// within the budget: delivered, acknowledged to the broker, both sides finished
			done := true
			for _, pl := range payloads {
				n := 0
				for _, d := range st.Deliv {
					if d.Payload == pl {
						n++
						if d.Topic != f.topic {
							add("delivered-under-wrong-topic", "handler got topic %q, broker published on %q", d.Topic, f.topic)
						}
					}
				}
				switch {
				case n == 0:
					add(fmt.Sprintf("message-not-delivered:q%d", f.qos), "the client's handler never ran for message %q (client sent %v)", pl, names(clOut))
				case f.qos == 2 && n != 1:
					add(fmt.Sprintf("qos2-handler-runs=%d", n), "QoS 2 message delivered to the handler %d times", n)
				}
				ok := false
				for _, m := range st.B.Completed {
					if m.Payload == pl && m.Topic == f.topic {
						ok = true
					}
				}
				done = done && ok
			}
			if !done {
				add(fmt.Sprintf("broker-never-acknowledged:q%d", f.qos), "the broker never received the final acknowledgement (in flight at the broker: %v; gateway sent %v; client sent %v)", st.B.InFlight(), names(gwOut), names(clOut))
			}
			if tx := st.H.VTransactions(); len(tx) > 0 {
				add("gateway-transaction-left", "gateway still holds %v at quiescence", tx)
			}
			if snap := st.C.VSnapshot(); !strings.Contains(snap, "tx=[]") {
				add("client-transaction-left", "client still holds transactions at quiescence: %s", snap)
			}
			if len(st.B.Errors) > 0 {
				add("broker-protocol-error", "%v", st.B.Errors)
			}
		}
		out := fmt.Sprintf("%v|gw=%v|cl=%v|deliv=%d|done=%v", faults, names(gwOut), names(clOut), len(st.Deliv), st.B.Completed)
		st.Finish()
		return out, vs
	})
	return res
}

func names(ds []stack.Dgram) []string {
	var out []string
	for _, d := range ds {
		n := d.P.Name()
		if d.P.Type == refsn.PUBLISH && d.P.DUP {
			n += "+dup"
		}
		out = append(out, n)
	}
	return out
}

func TestC16(t *testing.T) {
	var scs, over, pats []explore.Scenario
	for _, f := range c16flows() {
		f := f
		pats = append(pats, explore.Scenario{Name: f.name + ": loss counts per step", Run: func(p []int) explore.ExecResult { return runC16(t, f, "pattern", p) }})
		scs = append(scs, explore.Scenario{Name: f.name, Run: func(p []int) explore.ExecResult { return runC16(t, f, "", p) }})
		for _, step := range []string{"register", "publish", "release"} {
			if (step == "register" && f.topic != "w/n") || (step == "release" && f.qos != 2) {
				continue
			}
			step := step
			over = append(over, explore.Scenario{Name: f.name + ": every " + step + " datagram to the client lost", Run: func(p []int) explore.ExecResult { return runC16(t, f, step, p) }})
		}
	}
	if explore.IsWorker() {
		explore.ServeScenarios(append(append(scs, over...), pats...))
		return
	}
	rep := explore.NewReport("C16", "fault_enumeration")
	if explore.RunScenarios(rep, scs, explore.ScenarioOpts{Test: "TestC16", QuickBound: 2, ThoroughFrom: 2, ThoroughMax: 5,
		QuickBudget: 150 * time.Second, ThoroughBudge: 12 * time.Minute}) {
		explore.RunScenarios(rep, over, explore.ScenarioOpts{Test: "TestC16", QuickBound: 1, ThoroughFrom: 1, ThoroughMax: 2,
			QuickBudget: 200 * time.Second, ThoroughBudge: 14 * time.Minute})
		// bound 1 = every loss pattern under the default schedule; above: with schedule deviations
		explore.RunScenarios(rep, pats, explore.ScenarioOpts{Test: "TestC16", QuickBound: 1, ThoroughFrom: 1, ThoroughMax: 2,
			QuickBudget: 200 * time.Second, ThoroughBudge: 14 * time.Minute})
	}
	evals, _ := rep.Coverage["schedules"].(int)
	if se, ok := rep.Coverage["schedule_exploration"].(map[string]any); ok {
		n, _ := se["schedules"].(int)
		evals += n
	}
	rep.Coverage["evaluations"] = evals
	rep.Coverage["distinct_nontrivial"] = rep.Coverage["states"]
	rep.Coverage["rule"] = "real client <-> faulty in-memory link <-> real gateway session <-> broker model (RetryCount 2, RetryDelay 1 s on both sides); the broker publishes one QoS 1 / QoS 2 message on a subscribed (registered) topic, on a new topic under a wildcard (REGISTER step), on a short topic, and two QoS 1 messages right behind each other on one new topic; each datagram in either direction is delivered, dropped or duplicated, all patterns with at most 2 deviations (thorough up to 5) in which no exchange step loses more than RetryCount datagrams; plus every flow with all gateway->client datagrams of one step lost; plus, per flow, every combination of loss counts per exchange step (a gateway datagrams then b client acknowledgements lost, a+b <= RetryCount, for each of the REGISTER, PUBLISH and PUBREL steps: 216 patterns), so that losses in one step are followed by the full budget of losses in the next. Oracle within the budget: handler ran (exactly once for QoS 2) under the broker's topic, the broker got PUBACK / PUBCOMP, no transaction left on either side, retransmissions repeat message id, topic id and payload, PUBLISH retransmissions carry DUP, at most RetryCount retransmissions; beyond the budget: exactly 1 + RetryCount transmissions. distinct_nontrivial = distinct (fault pattern, datagram log) outcomes"
	rep.Assumptions = []string{"thread schedule: deviation-bounded together with the fault choices", "a duplicate arrives right after the original", "the broker model is lossless (TCP)"}
	rep.Finish()
}
