package stk

import (
	"encoding/json"
	"fmt"
	"sort"
	"strings"
	"testing"

	"github.com/energomonitor/bisquitt/topics"

	"verif/mc/explore"
	"verif/mc/harness/stack"
	"verif/mc/vsched"
)

// ---- C32: short-topic and predefined routing consistent between client and gateway ----
//
// Every shared predefined configuration {c1,*} x id{1,2} -> {absent, p/1, p/2}
// (81 maps, all shadowing patterns) x client id {c1,c2}: on the real stack the
// client publishes/subscribes with raw predefined ids, with ids derived by name
// (as bisquitt-pub derives them) and with 2-byte names; the broker model must
// see the name the client meant, and broker messages must reach the handler
// under the broker's name.

var c32names = []string{"", "p/1", "p/2"}

// reference precedence, written from the documentation: the client's own table first, then "*"
func refName(cfg topics.PredefinedTopics, client string, id uint16) (string, bool) {
	if t, ok := cfg[client]; ok {
		if n, ok := t[id]; ok {
			return n, true
		}
	}
	if t, ok := cfg["*"]; ok {
		if n, ok := t[id]; ok {
			return n, true
		}
	}
	return "", false
}

func c32config(i int) topics.PredefinedTopics {
	cfg := topics.PredefinedTopics{}
	for _, cl := range []string{"c1", "*"} {
		for _, id := range []uint16{1, 2} {
			n := c32names[i%3]
			i /= 3
			if n != "" {
				if cfg[cl] == nil {
					cfg[cl] = map[uint16]string{}
				}
				cfg[cl][id] = n
			}
		}
	}
	return cfg
}

func cfgString(cfg topics.PredefinedTopics) string {
	var parts []string
	for cl, t := range cfg {
		for id, n := range t {
			parts = append(parts, fmt.Sprintf("%s:%d=%s", cl, id, n))
		}
	}
	sort.Strings(parts)
	return "{" + strings.Join(parts, " ") + "}"
}

var c32shorts = []string{"ab", "ba", "a/", "é", "µ"}

type c32op struct {
	what string
	run  func(st *stack.Stack, ctx string, add func(sig, f string, a ...any)) string
}

func c32ops(pre topics.PredefinedTopics, clientID string) []c32op {
	var ops []c32op
	publish := func(what, want string, wantOK bool, call func(st *stack.Stack, payload string) error) {
		ops = append(ops, c32op{what, func(st *stack.Stack, ctx string, add func(sig, f string, a ...any)) string {
			n0 := len(st.B.Received)
			c := st.Go(what, func() error { return call(st, "m") })
			got := st.B.Received[n0:]
			switch {
			case wantOK && (len(got) != 1 || got[0].Topic != want || got[0].Payload != "m"):
				add("publish-arrives-under-other-name:"+strings.SplitN(what, "(", 2)[0], "%s: the client means %q, the broker received %v (call returned=%t %q)", what, want, got, c.Returned, c.Err)
			case !wantOK && len(got) != 0:
				add("publish-with-unresolvable-id-forwarded", "%s denotes nothing for this client, the broker received %v", what, got)
			}
			return fmt.Sprintf("%s->%v/%s", what, got, c.Err)
		}})
	}
	for _, qos := range []uint8{0, 1} {
		qos := qos
		for _, id := range []uint16{1, 2, 3} {
			id := id
			want, ok := refName(pre, clientID, id)
			publish(fmt.Sprintf("PublishPredefined(%d,q%d)", id, qos), want, ok, func(st *stack.Stack, p string) error { return st.C.PublishPredefined(id, []byte(p), qos, false) })
		}
		// the way bisquitt-pub derives the id: by name from the shared configuration
		for _, name := range []string{"p/1", "p/2"} {
			name := name
			if id, ok := pre.GetTopicID(clientID, name); ok {
				publish(fmt.Sprintf("PublishPredefined(id-of %s=%d,q%d)", name, id, qos), name, true, func(st *stack.Stack, p string) error { return st.C.PublishPredefined(id, []byte(p), qos, false) })
			}
		}
		for _, name := range c32shorts {
			name := name
			publish(fmt.Sprintf("Publish(short %q,q%d)", name, qos), name, true, func(st *stack.Stack, p string) error { return st.C.Publish(name, []byte(p), qos, false) })
		}
	}
	// subscriptions: the broker must see the name the client meant; then a broker message comes back under the broker's name
	subThenDeliver := func(what, want string, wantOK bool, sub func(st *stack.Stack) error) {
		ops = append(ops, c32op{what, func(st *stack.Stack, ctx string, add func(sig, f string, a ...any)) string {
			before := fmt.Sprint(st.B.Subs)
			c := st.Go(what, func() error { return sub(st) })
			_, has := st.B.Subs[want]
			kind := "predefined"
			if strings.Contains(what, "short") {
				kind = "short"
			}
			if !wantOK {
				if fmt.Sprint(st.B.Subs) != before {
					add("subscription-with-unresolvable-id-forwarded", "%s denotes nothing for this client, the broker's subscriptions went from %s to %v", what, before, st.B.Subs)
				}
				return fmt.Sprintf("%s->%v/%s", what, st.B.Subs, c.Err)
			}
			if !has || !c.Returned || c.Err != "" {
				add("subscription-arrives-under-other-name:"+kind, "%s: the client means %q, the broker's subscriptions went from %s to %v (call returned=%t %q)", what, want, before, st.B.Subs, c.Returned, c.Err)
				return fmt.Sprintf("%s->%v/%s", what, st.B.Subs, c.Err)
			}
			out := fmt.Sprintf("%s->%v", what, st.B.Subs)
			for _, qos := range []byte{0, 1} {
				payload := fmt.Sprintf("b%d", qos)
				n0 := len(st.Deliv)
				st.BrokerPublish(want, payload, qos)
				got := st.Deliv[n0:]
				out += fmt.Sprintf(";broker q%d->%v", qos, got)
				if len(got) != 1 || got[0].Topic != want || got[0].Payload != payload {
					add("broker-message-delivered-under-other-name:"+kind, "after %s, broker message on %q (q%d): the client's handlers got %v", what, want, qos, got)
				}
			}
			return out
		}})
	}
	for _, id := range []uint16{1, 2, 3} {
		id := id
		want, ok := refName(pre, clientID, id)
		subThenDeliver(fmt.Sprintf("SubscribePredefined(%d)", id), want, ok, func(st *stack.Stack) error {
			return st.C.SubscribePredefined(id, 1, st.Handler(fmt.Sprintf("predef:%d", id)))
		})
	}
	for _, name := range c32shorts {
		name := name
		subThenDeliver(fmt.Sprintf("Subscribe(short %q)", name), name, true, func(st *stack.Stack) error { return st.C.Subscribe(name, 1, st.Handler("short:"+name)) })
	}
	return ops
}

// c32longID: a client id longer than the 23 octets MQTT-SN recommends (the tools' default ids are up to 29 long)
const c32longID = "c1-0123456789-0123456789-0123456789"

// c32configFor: every third configuration names its client-specific section (and the client) with the long id
func c32configFor(cfgIdx int, clientID string) (topics.PredefinedTopics, string) {
	pre := c32config(cfgIdx)
	if cfgIdx%3 != 2 {
		return pre, clientID
	}
	if sec, ok := pre["c1"]; ok {
		delete(pre, "c1")
		pre[c32longID] = sec
	}
	if clientID == "c1" {
		clientID = c32longID
	}
	return pre, clientID
}

// every operation runs on a fresh session (a refused operation may legitimately end the session)
func runC32(t *testing.T, cfgIdx int, clientID string) (n int, outcome string, vs []explore.Violation, herr string) {
	var outs []string
	pre0, clientID := c32configFor(cfgIdx, clientID)
	for _, op := range c32ops(pre0, clientID) {
		op := op
		pre, _ := c32configFor(cfgIdx, clientID) // a fresh configuration object per run (sessions may write into it)
		res, _ := explore.Bubble(t, nil, func(s *vsched.Sched) (string, []explore.Violation) {
			s.NoChoice = true
			// the gateway serves every client from one configuration object: a session of the *other* client on the
			// same object comes first (connect, one predefined publish, disconnect)
			other := "c1"
			if clientID == "c1" || clientID == c32longID {
				other = "c2"
			}
			cfg0 := c16cfg()
			cfg0.ClientID = other
			cfg0.Predefined = pre
			st0 := stack.New(s, cfg0)
			st0.Dial()
			st0.Go("Connect", st0.C.Connect)
			st0.Go("PublishPredefined", func() error { return st0.C.PublishPredefined(1, []byte("o"), 0, false) })
			st0.Go("Disconnect", st0.C.Disconnect)
			st0.Finish()
			cfg := c16cfg()
			cfg.ClientID = clientID
			cfg.Predefined = pre
			// every other configuration connects with a last will (the connect exchange takes another path)
			cfg.Will = cfgIdx%2 == 1
			st := stack.New(s, cfg)
			st.Dial()
			if c := st.Go("Connect", st.C.Connect); !c.Returned || c.Err != "" {
				return "connect failed", []explore.Violation{{Property: "C32", Sig: "setup:connect", Detail: "Connect failed: " + c.Err}}
			}
			ctx := fmt.Sprintf("config %s, client %q", cfgString(pre), clientID)
			var v []explore.Violation
			add := func(sig, f string, a ...any) {
				v = append(v, explore.Violation{Property: "C32", Sig: sig, Detail: ctx + ": " + fmt.Sprintf(f, a...)})
			}
			out := op.run(st, ctx, add)
			if len(s.Panics) > 0 {
				add("panic", "%s", s.Panics[0])
			}
			if len(st.B.Errors) > 0 {
				add("broker-protocol-error", "%v", st.B.Errors)
			}
			st.Finish()
			return out, v
		})
		n++
		outs = append(outs, res.Outcome)
		vs = append(vs, res.Violations...)
		if res.HarnessErr != "" {
			herr = res.HarnessErr
		}
	}
	return n, strings.Join(outs, " | "), vs, herr
}

type c32job struct {
	Cfg    int
	Client string
}
type c32res struct {
	N     int
	Out   string
	Viols []explore.Violation
	Herr  string
}

func TestC32(t *testing.T) {
	if explore.IsWorker() {
		explore.Serve(func(name string, payload []byte) any {
			var j c32job
			json.Unmarshal(payload, &j)
			var r c32res
			r.N, r.Out, r.Viols, r.Herr = runC32(t, j.Cfg, j.Client)
			return r
		})
		return
	}
	rep := explore.NewReport("C32", "exploration")
	pool := explore.NewPool("TestC32", explore.Workers())
	defer pool.Close()
	type item struct {
		j c32job
		r c32res
	}
	results := make(chan item, 200)
	jobs := 0
	for i := 0; i < 81; i++ {
		for _, cid := range []string{"c1", "c2"} {
			jobs++
			go func(j c32job) {
				var r c32res
				if err := pool.Call("cfg", j, &r); err != nil {
					r.Herr = err.Error()
				}
				results <- item{j, r}
			}(c32job{i, cid})
		}
	}
	evals := 0
	outcomes := map[string]bool{}
	var samples []string
	var all []explore.Violation
	for k := 0; k < jobs; k++ {
		it := <-results
		if it.r.Herr != "" {
			rep.HarnessErr = it.r.Herr
		}
		evals += it.r.N
		outcomes[it.r.Out] = true
		all = append(all, it.r.Viols...)
		if it.j.Cfg == 32 || it.j.Cfg == 5 {
			samples = append(samples, fmt.Sprintf("config %s client %s: %s", cfgString(c32config(it.j.Cfg)), it.j.Client, it.r.Out))
		}
	}
	sort.Slice(all, func(i, j int) bool { return all[i].Detail < all[j].Detail })
	sort.Strings(samples)
	rep.Add(all...)
	rep.Coverage["evaluations"] = evals
	rep.Coverage["distinct_nontrivial"] = len(outcomes)
	rep.Coverage["sessions"] = evals
	rep.Coverage["exhaustive"] = true
	rep.Coverage["samples"] = samples
	rep.Coverage["rule"] = "all 81 shared predefined configurations {c1,*} x id{1,2} -> {absent,p/1,p/2} x client id {c1,c2}; each operation on a fresh real client + real gateway session + broker model (every other configuration connecting with a last will, every third one with a 35-octet client id), after a session of the other client id on the same configuration object: PublishPredefined with raw ids 1..3 and with ids derived by name through GetTopicID (as bisquitt-pub does) at QoS 0/1, Publish on 2-byte names (ASCII, with '/', 2-byte UTF-8 characters), SubscribePredefined 1..3 and Subscribe on the 2-byte names each followed by broker messages (QoS 0/1) on the subscribed name; reference: client-specific entry first, then \"*\". The broker must see exactly the name the client meant (nothing for an id that denotes nothing) and the handler must get the broker's name. distinct_nontrivial = distinct per-configuration logs"
	rep.Assumptions = []string{"default schedule, lossless link", "client and gateway share one configuration object (as the property states)"}
	rep.Finish()
}
