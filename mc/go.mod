module verif/mc

go 1.26.8

require (
	github.com/anishathalye/porcupine v1.3.0
	github.com/energomonitor/bisquitt v0.0.0
)

replace github.com/energomonitor/bisquitt => /repo

replace golang.org/x/sync => ./xsync
