module verif/mc

go 1.26.8

require (
	github.com/anishathalye/porcupine v1.3.0
	github.com/energomonitor/bisquitt v0.0.0
)

require (
	github.com/pion/dtls/v2 v2.1.3 // indirect
	gopkg.in/yaml.v3 v3.0.0-20210107192922-496545a6307b // indirect
)

replace github.com/energomonitor/bisquitt => /repo

replace golang.org/x/sync => ./xsync
