#!/bin/bash
# runall.sh [tier] : run every registered check, print one line per check
tier=${1:-quick}
cd /verif
for id in $(grep '^reg C' vcheck | awk '{print $2}' | sort); do
  s=$(date +%s)
  out=$(./vcheck $id $tier 2>&1); rc=$?
  e=$(date +%s)
  echo "$id exit=$rc $((e-s))s $(echo "$out" | grep -c '^VIOLATION') viol $(echo "$out" | grep -c '^KNOWN-FINDING') known $(echo "$out" | grep '^HARNESS' | head -1)"
done
