#!/usr/bin/env python3-vt
"""validate.py : MANIFEST.json and every evidence file against the schemas"""
import json, jsonschema, glob, sys
m = json.load(open('/verif/MANIFEST.json'))
jsonschema.validate(m, json.load(open('/root/.vp/MANIFEST.schema.json')))
claimed = [c['property_id'] for c in m['checks']]
na = [x['property_id'] for x in m['not_applicable']]
print('manifest ok; claimed', len(claimed), 'not_applicable', na)
sch = json.load(open('/root/.vp/EVIDENCE.schema.json'))
bad = 0
for c in m['checks']:
    try:
        e = json.load(open(c['evidence_file']))
        jsonschema.validate(e, sch)
        if e['level'] != c['level_claimed']['category']:
            print('LEVEL MISMATCH', c['property_id'], e['level'], c['level_claimed']['category']); bad += 1
    except Exception as ex:
        print('BAD', c['property_id'], str(ex)[:200]); bad += 1
print('evidence bad:', bad)
sys.exit(1 if bad else 0)
