#!/bin/bash
# confirm_keep.sh <ID> <name> <pkg> <needs> <caught_csv> [srcdir] : confirm a seed from /tmp/seedout/<ID> on /repo HEAD and keep it
id=$1; name=$2; pkg=$3; needs=$4; caught=$5; src=${6:-/tmp/seedout/$id}
r=$(/verif/tools/confirm_seed.sh $src demo_test.go $pkg 2>&1 | tail -1)
echo "$id: $r"
case "$r" in
  "demo-without-change=0 (want 0) demo-with-change=1 (want !=0) suite-with-change=0 (want 0)")
    python3 /verif/tools/keep_seed.py $id "$name" $src/patch.diff $src/demo_test.go $pkg "$needs" "$caught"
    cp $src/notes.md /verif/seeded/$name/ 2>/dev/null
    ;;
  *) echo "$id NOT CONFIRMED";;
esac
