#!/bin/bash
# inrepo.sh <tree> <command...> : run a command in a private mount namespace in which <tree> (a scratch
# worktree of /repo) is mounted on /repo and a scratch directory on /verif/evidence, so that checks can be
# tried against a changed tree without touching /repo or the committed evidence.  Development aid only:
# the commands in MANIFEST.json always run against the real /repo.
tree=$(readlink -f "$1"); shift
ev=$(mktemp -d /tmp/inrepo-ev.XXXXXX)
unshare -m bash -c 'mount --bind "$1" /repo && mount --bind "$2" /verif/evidence && shift 2 && exec "$@"' _ "$tree" "$ev" "$@"
rc=$?
rm -rf "$ev"
exit $rc
