#!/usr/bin/env python3
"""keep_seed.py <id> <name> <patch> <demo> <pkg> <needs> <caught_by_csv> : store a confirmed seeded change under /verif/seeded/<name>/"""
import sys, os, shutil, json, subprocess
pid, name, patch, demo, pkg, needs, caught = sys.argv[1:8]
d = '/verif/seeded/' + name
os.makedirs(d, exist_ok=True)
shutil.copy(patch, d + '/patch.diff')
shutil.copy(demo, d + '/' + os.path.basename(demo))
head = subprocess.check_output(['git', '-C', '/repo', 'log', '--format=%h', '-1']).decode().strip()
meta = {
    "property": pid,
    "breaks": open('/tmp/seed/%s.txt' % pid).read().split('\n')[0],
    "needs_to_manifest": needs,
    "demonstration": {"file": os.path.basename(demo), "package_dir": pkg,
                      "run": "cp %s /repo-worktree/%s/zz_demo_test.go && go test -vet=off -count=1 -run 'Demo|C[0-9][0-9]' ./%s/" % (os.path.basename(demo), pkg, pkg)},
    "confirmed": {"against_repo_commit": head,
                  "what_i_ran": "tools/confirm_seed.sh in a scratch worktree of /repo HEAD: demo passes without the change, fails with it; `go test -vet=off -count=1 ./...` passes with the change",
                  "result": "demo-without-change=0 demo-with-change!=0 suite-with-change=0"},
    "origin": "written by an independent sub-agent that saw only the property text and its own worktree" + (" (patch ported by hand to the tree after later fix: commits; same slip)" if 'ported' in patch else ""),
    "caught_by": [c for c in caught.split(',') if c],
}
json.dump(meta, open(d + '/meta.json', 'w'), indent=1)
print("kept", d)
