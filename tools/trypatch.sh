#!/bin/bash
# trypatch.sh <patch> <check id>... : apply a patch to a scratch worktree of /repo's HEAD, run the quick tier of
# the named checks against it in a private mount namespace (tools/inrepo.sh), remove the worktree.
# Prints one line per check: "<id> rc=<exit> viol=<VIOLATION lines> <first signature>".  /repo itself is untouched.
patch=$(readlink -f "$1"); shift
wt=$(mktemp -d /tmp/trypatch.XXXXXX); rmdir "$wt"
git -C /repo worktree add -q --detach "$wt" HEAD || exit 2
trap 'git -C /repo worktree remove --force "$wt" 2>/dev/null; rm -rf "$wt"' EXIT
if ! git -C "$wt" apply "$patch" 2>/dev/null && ! git -C "$wt" apply -3 "$patch" 2>/dev/null; then echo "patch does not apply"; exit 3; fi
for id in "$@"; do
  o=$(/verif/tools/inrepo.sh "$wt" /verif/vcheck $id ${TIER:-quick} 2>&1); rc=$?
  echo "$id rc=$rc viol=$(echo "$o" | grep -a -c '^VIOLATION') $(echo "$o" | grep -a -m1 'signature:' | sed 's/ *signature: //' | cut -c1-100) $(echo "$o" | grep -a -m1 '^HARNESS' | cut -c1-120)"
done
