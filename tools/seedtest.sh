#!/bin/bash
# seedtest.sh <patch.diff> <property-id>... : apply a property-breaking change to /repo,
# run the given checks (quick tier), undo the change.  Prints one line per check.
patch=$(readlink -f "$1"); shift
cd /repo || exit 2
if [ -n "$(git status --porcelain --untracked-files=no)" ]; then echo "/repo not clean"; exit 2; fi
git apply "$patch" 2>/dev/null || { echo "patch does not apply to the current tree (port it by hand)"; git reset -q --hard; exit 2; }
for id in "$@"; do
  out=$(cd /verif && ./vcheck "$id" "${TIER:-quick}" 2>&1); rc=$?
  echo "== $id exit=$rc $(echo "$out" | grep -a -c "^VIOLATION") violation line(s)"
  echo "$out" | grep -a -A2 '^VIOLATION\|^HARNESS-ERROR' | head -${LINES_MAX:-12}
done
git reset -q --hard
