#!/bin/bash
# confirm_seed.sh <dir with patch.diff + demo> <demo file> <pkg dir> : independently confirm a seeded
# change in a scratch worktree of /repo's HEAD: suite passes with it, demo fails with it and passes without.
set -u
dir=$1; demo=$2; pkg=$3
export GOFLAGS=-mod=mod GOPROXY=off GOSUMDB=off
wt=$(mktemp -d /tmp/confirm.XXXXXX); rmdir "$wt"
git -C /repo worktree add -q --detach "$wt" HEAD || exit 2
trap 'git -C /repo worktree remove --force "$wt"' EXIT
cd "$wt"
cp "$dir/$demo" "$pkg/zz_demo_test.go"
go test -vet=off -count=1 -run 'Demo|C[0-9][0-9]' "./$pkg/" >/tmp/confirm.$$.a 2>&1; a=$?
git apply "$dir/patch.diff" 2>/dev/null || git apply -3 "$dir/patch.diff" || { echo "PATCH-FAILS"; exit 2; }
go test -vet=off -count=1 -run 'Demo|C[0-9][0-9]' "./$pkg/" >/tmp/confirm.$$.b 2>&1; b=$?
rm "$pkg/zz_demo_test.go"
go test -vet=off -count=1 ./... >/tmp/confirm.$$.c 2>&1; c=$?
echo "demo-without-change=$a (want 0) demo-with-change=$b (want !=0) suite-with-change=$c (want 0)"
[ $c -ne 0 ] && grep -v "no test files" /tmp/confirm.$$.c | tail -5
rm -f /tmp/confirm.$$.*
