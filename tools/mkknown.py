#!/usr/bin/env python3
"""Regenerates /verif/known_findings.json from tools/known_src.json, resolving each fix: commit by its subject
(so that hashes stay right when /repo history is rewritten by an autosquash)."""
import json, subprocess
src = json.load(open('/verif/tools/known_src.json'))
fixed = []
for e in src['fixed_src']:
    h = subprocess.check_output(['git', '-C', '/repo', 'log', '--format=%h', '--fixed-strings', '--grep', e['subject'], '-1']).decode().strip()
    assert h, e['subject']
    fixed.append("fixed: property=%s %s %s" % (e['property'], h, e['text']))
json.dump({"findings": src['findings'], "fixed": fixed}, open('/verif/known_findings.json', 'w'), indent=1)
print(len(src['findings']), "findings,", len(fixed), "fixed")
