#!/bin/bash
# seed_matrix.sh : apply every kept seeded change to /repo in turn, run the checks its meta.json names
# (quick tier), undo it; writes /verif/seeded/MATRIX.md
out=/verif/seeded/MATRIX.md
echo "| seeded change | breaks | check | exit | VIOLATION lines | first signature |" > $out.tmp
echo "|---|---|---|---|---|---|" >> $out.tmp
for d in /verif/seeded/*/; do
  n=$(basename $d)
  [ -f $d/meta.json ] || continue
  prop=$(python3 -c "import json;print(json.load(open('$d/meta.json'))['property'])")
  checks=$(python3 -c "import json;print(' '.join(json.load(open('$d/meta.json'))['caught_by'] or [json.load(open('$d/meta.json'))['property']]))")
  cd /repo
  if [ -n "$(git status --porcelain --untracked-files=no)" ]; then echo "/repo not clean"; exit 2; fi
  if ! git apply $d/patch.diff 2>/dev/null && ! git apply -3 $d/patch.diff 2>/dev/null; then
    echo "| $n | $prop | - | patch does not apply | - | - |" >> $out.tmp; git reset -q --hard; continue
  fi
  for id in $checks; do
    o=$(cd /verif && ./vcheck $id quick 2>&1); rc=$?
    nv=$(echo "$o" | grep -a -c '^VIOLATION')
    sig=$(echo "$o" | grep -a -m1 'signature:' | sed 's/ *signature: //' | cut -c1-90 | tr '|' '/')
    echo "| $n | $prop | $id | $rc | $nv | $sig |" >> $out.tmp
    echo "$n $id rc=$rc viol=$nv"
  done
  git reset -q --hard
done
mv $out.tmp $out
