#!/bin/bash
# seed_matrix.sh [jobs] : for every kept seeded change, run the checks its meta.json names (quick tier) against a
# scratch worktree of /repo's HEAD with the change applied (tools/trypatch.sh: private mount namespace, /repo and
# the committed evidence stay untouched), several changes at a time; writes /verif/seeded/MATRIX.md
jobs=${1:-4}
out=/verif/seeded/MATRIX.md
tmp=$(mktemp -d /tmp/matrix.XXXXXX)
ls -d /verif/seeded/*/ | while read d; do
  n=$(basename $d); [ -f $d/meta.json ] || continue
  echo "$n"
done > $tmp/list
one() {
  n=$1; tmp=$2; d=/verif/seeded/$n
  prop=$(python3 -c "import json;print(json.load(open('$d/meta.json'))['property'])")
  checks=$(python3 -c "import json;m=json.load(open('$d/meta.json'));print(' '.join(m['caught_by'] or [m['property']]))")
  /verif/tools/trypatch.sh $d/patch.diff $checks 2>/dev/null | grep -a -v '^WARNING' | while read line; do
    case "$line" in
      "patch does not apply") echo "| $n | $prop | - | patch does not apply | - | - |";;
      *) id=$(echo "$line" | awk '{print $1}'); rc=$(echo "$line" | sed 's/.* rc=\([0-9]*\) .*/\1/'); nv=$(echo "$line" | sed 's/.* viol=\([0-9]*\).*/\1/'); sig=$(echo "$line" | sed 's/.* viol=[0-9]* *//' | tr '|' '/' | cut -c1-90)
         echo "| $n | $prop | $id | $rc | $nv | $sig |";;
    esac
  done > $tmp/$n.row
  echo "$n done: $(tr '\n' ' ' < $tmp/$n.row | cut -c1-160)"
}
export -f one
xargs -a $tmp/list -P $jobs -I{} bash -c 'one {} '$tmp
{ echo "| seeded change | breaks | check | exit | VIOLATION lines | first signature |"; echo "|---|---|---|---|---|---|"; for n in $(cat $tmp/list); do cat $tmp/$n.row; done; } > $out
rm -rf $tmp
