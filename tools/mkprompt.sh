#!/bin/bash
# mkprompt.sh <ID> [suffix] [extra text]  -> creates worktree and prints prompt
id=$1; suf=${2:-}; extra=${3:-}
wt=/tmp/seedwt/$id$suf
[ -d "$wt" ] || git -C /repo worktree add -q --detach "$wt" HEAD
python3 - "$id" "$suf" "$wt" "$extra" <<'PY'
import sys
id,suf,wt,extra=sys.argv[1:5]
t=open('/verif/tools/PROMPT.tmpl').read()
print(t.replace('@WT@',wt).replace('@ID@',id).replace('@SUF@',suf).replace('@EXTRA@',extra).replace('@PROP@',open('/tmp/seed/%s.txt'%id).read()))
PY
