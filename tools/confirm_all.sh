#!/bin/bash
# confirm_all.sh id... : confirm seeds in /tmp/seed/<id>/_out (or /tmp/ported/<id>.diff when present) against /repo HEAD
for id in "$@"; do
  d=/tmp/seed/$id/_out
  patch=$d/patch.diff
  [ -f /tmp/ported/$id.diff ] && patch=/tmp/ported/$id.diff
  demo=$(ls $d/*_test.go 2>/dev/null | head -1)
  if [ -z "$demo" ]; then echo "$id: no demo"; continue; fi
  pkg=$(grep -m1 '^package ' $demo | awk '{print $2}')
  tmp=$(mktemp -d /tmp/cs.XXXX); cp $patch $tmp/patch.diff; cp $demo $tmp/
  echo "$id ($pkg, $(basename $demo), $(basename $patch)): $(/verif/tools/confirm_seed.sh $tmp $(basename $demo) $pkg 2>&1 | tail -3 | tr '\n' ' ')"
  rm -rf $tmp
done
